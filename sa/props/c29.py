"""C29 — a secure session only accepts fresh wrapped frames and never sends plain ones.

Receive: decision table of SecureSession.handle_knxipframe over {body: SecureWrapper / SessionResponse /
other} x {initialized} x {sequence number <,=,> last accepted} x {decrypt: ok / validation error /
parse error}: a frame is passed on only if (wrapper, initialized, strictly greater number, decrypt ok)
— then the counter becomes that number and the *decrypted* frame is passed — or (not initialized and
SessionResponse); rejected frames leave the counter unchanged.  decrypt_frame's return is dominated by
session-id equality, MAC equality and the forbidden-service test; FORBIDDEN_WRAPPED_SERVICES covers
nested wrappers and remote diagnosis.
Send: table of SecureSession.send over {initialized} x {SessionRequest / other}; get_sequence_information
returns the pre-increment counter and is its only non-reset writer; the socket write has one owner.
"""

from __future__ import annotations

import ast

from ..absmachine import AbsMachine, Obj, Outcome, Raise, SymInt, UNKNOWN, class_isinstance
from ..astx import attr_writes, call_name, call_sites, calls, method_name, norm_cmp, walk_local
from ..cfg import CFG
from ..exctable import ExcTable
from ..explore import Explorer
from ..loader import NOFOLD, AnalysisError, EnumMember, Repo
from ..report import Check, canon

M = "xknx.io.ip_secure"


def table_receive(chk: Check, repo: Repo) -> None:
    fi = repo.func(M, "SecureSession.handle_knxipframe")
    chk.unit(fi)
    cfg = CFG(fi.node)
    exc = ExcTable(repo)
    p0 = fi.node.args.args[1].arg
    cells = 0
    for body_cls in ("SecureWrapper", "SessionResponse", "TunnellingRequest", "SessionStatus"):
        for initialized in (False, True):
            seqs = (-1, 0, 1) if body_cls == "SecureWrapper" else (0,)
            decs = ("ok", "KNXSecureValidationError", "CouldNotParseKNXIP") if body_cls == "SecureWrapper" else ("n/a",)
            for d in seqs:
                for dec in decs:
                    cells += 1
                    body = Obj(body_cls, "rx", (("sequence_information", SymInt("last", d)),))
                    frame = Obj("KNXIPFrame", "received", (("body", body),))

                    def cm(c: ast.Call, env, dec=dec):
                        n = call_name(c)
                        if n == "int.from_bytes":
                            return [Outcome(None, box["am"].ev(c.args[0], env, {}))]
                        if n == "self.decrypt_frame":
                            if dec == "ok":
                                return [Outcome("DECRYPT:ok", Obj("KNXIPFrame", "decrypted"))]
                            return [Outcome(f"DECRYPT:{dec}", Raise(dec))]
                        if n == "super().handle_knxipframe":
                            arg = box["am"].ev(c.args[0], env, {})
                            return [Outcome(f"FORWARD({arg!r})", None)]
                        if "logger" in n:
                            return [Outcome(None, None)]
                        return None

                    box = {}
                    am = AbsMachine(cfg, exc, cm)
                    am.isinstance_fn = class_isinstance(repo)
                    box["am"] = am
                    env = {p0: frame, f"{p0}.body": body, "self.initialized": initialized, "self._sequence_number_received": SymInt("last", 0)}
                    paths = Explorer(cfg, repo, am.step).run(cfg.entry, [], env)
                    got = {(tuple(t for t in p.env.get("trace", ()) if not t.startswith("raise:")), repr(p.env.get("self._sequence_number_received")), p.end_kind if p.end_kind != "raise" else f"raise {p.env.get('#raised')}") for p in paths}
                    LAST = repr(SymInt("last", 0))
                    if body_cls == "SecureWrapper":
                        if not initialized:
                            want = {((), LAST, "raise CouldNotParseKNXIP")}
                        elif d <= 0:
                            want = {((), LAST, "exit")}
                        elif dec == "ok":
                            want = {(("DECRYPT:ok", f"FORWARD({Obj('KNXIPFrame', 'decrypted')!r})"), repr(SymInt("last", d)), "exit")}
                        else:
                            want = {((f"DECRYPT:{dec}",), LAST, "exit")}
                    elif body_cls == "SessionResponse" and not initialized:
                        want = {((f"FORWARD({frame!r})",), LAST, "exit")}
                    else:
                        want = {((), LAST, "exit")}
                    ok = got == want
                    chk.ob("receive-cell", fi.site(), ok, f"body={body_cls} initialized={initialized} seq=last{d:+d} decrypt={dec}: code {sorted(got)}; reference {sorted(want)}",
                           key=f"rx|{body_cls}|{initialized}|{d}|{dec}" + ("" if ok else f"|{sorted(got)}"))
    chk.count("receive_cells", cells)
    # writers of the receive counter
    ws = [w for w in attr_writes(repo, "_sequence_number_received", include_mutators=False)]
    chk.floor("receive counter writers", len(ws), 2)
    for w in ws:
        v = repo.fold(w.stmt.value, w.func.module, w.func.cls) if hasattr(w.stmt, "value") else NOFOLD
        ok = (w.func.qualname in ("SecureSession.__init__", "SecureSession.connect") and v == -1) or w.func.qualname == "SecureSession.handle_knxipframe"
        chk.ob("receive-counter-writer", w.func.site(w.stmt), ok, f"`{canon(w.stmt)}` in {w.func.qualname}", key=f"rxw|{w.func.qualname}|{canon(w.stmt)}")


def check_decrypt(chk: Check, repo: Repo) -> None:
    fi = repo.func(M, "_IPSecureTransportLayer.decrypt_frame")
    chk.unit(fi)
    cfg = CFG(fi.node)
    mf = cfg.must_facts()
    rets = [n for n in cfg.nodes if isinstance(n.ast, ast.Return)]
    chk.floor("decrypt_frame returns", len(rets), 1)
    p0 = fi.node.args.args[1].arg
    for r in rets:
        facts = mf[r.id]
        eqs = set()
        forbidden_checked = False
        for text, val in facts:
            e = ast.parse(text, mode="eval").body
            nc = norm_cmp(e, val)
            if nc and nc[1] == "==":
                eqs.add(frozenset((nc[0], nc[2])))
            if nc and nc[1] == "not in" and nc[2] == "FORBIDDEN_WRAPPED_SERVICES" and nc[0].endswith("service_type_ident"):
                forbidden_checked = True
        sid = frozenset((f"{p0}.body.secure_session_id", "self.session_id")) in eqs
        # MAC equality: one side is assigned from the MAC primitive, the other from decrypt_ctr's second output
        mac_name = dec_mac = None
        for n in cfg.nodes:
            if isinstance(n.ast, ast.Assign):
                if any(call_name(c) == "calculate_message_authentication_code_cbc" for c in calls(n.ast)) and isinstance(n.ast.targets[0], ast.Name):
                    mac_name = n.ast.targets[0].id
                if any(call_name(c) == "decrypt_ctr" for c in calls(n.ast)) and isinstance(n.ast.targets[0], ast.Tuple):
                    dec_mac = ast.unparse(n.ast.targets[0].elts[1])
        mac = mac_name is not None and dec_mac is not None and frozenset((mac_name, dec_mac)) in eqs
        chk.ob("unwrap-gated", fi.site(r.ast), sid and mac and forbidden_checked, f"return of the unwrapped frame is dominated by session-id equality ({sid}), MAC equality {mac_name}=={dec_mac} ({mac}) and the forbidden-service test ({forbidden_checked})", key="unwrap-gated")
    forb = repo.module_const(M, "FORBIDDEN_WRAPPED_SERVICES")
    names = {v.name for v in forb if isinstance(v, EnumMember)} if isinstance(forb, tuple) else set()
    need = {"SECURE_WRAPPER", "REMOTE_DIAG_REQUEST", "REMOTE_DIAG_RESPONSE"}
    chk.ob("forbidden-services", fi.site(), need <= names, f"FORBIDDEN_WRAPPED_SERVICES = {sorted(names)}; must contain {sorted(need)} (nested wrappers, remote diagnosis)", key="forbidden-services")


def table_send(chk: Check, repo: Repo) -> None:
    fi = repo.func(M, "SecureSession.send")
    chk.unit(fi)
    cfg = CFG(fi.node)
    exc = ExcTable(repo)
    p0 = fi.node.args.args[1].arg
    for initialized in (False, True):
        for body_cls in ("SessionRequest", "SessionAuthenticate", "TunnellingRequest", "SessionStatus"):
            frame = Obj("KNXIPFrame", "plain", (("body", Obj(body_cls, "b")),))

            def cm(c: ast.Call, env):
                n = call_name(c)
                if n == "self.encrypt_frame":
                    return [Outcome("ENCRYPT", Obj("KNXIPFrame", "wrapped"))]
                if n == "super().send":
                    return [Outcome(f"WRITE({box['am'].ev(c.args[0], env, {})!r})", None)]
                if n == "self.start_keepalive_task" or "logger" in n:
                    return [Outcome(None, None)]
                return None

            box = {}
            am = AbsMachine(cfg, exc, cm)
            am.isinstance_fn = class_isinstance(repo)
            box["am"] = am
            paths = Explorer(cfg, repo, am.step).run(cfg.entry, [], {p0: frame, f"{p0}.body": frame.get("body"), "self.initialized": initialized})
            got = {(tuple(t for t in p.env.get("trace", ()) if not t.startswith("raise:")), p.end_kind if p.end_kind != "raise" else f"raise {p.env.get('#raised')}") for p in paths}
            if initialized:
                want = {(("ENCRYPT", f"WRITE({Obj('KNXIPFrame', 'wrapped')!r})"), "exit")}
            elif body_cls == "SessionRequest":
                want = {((f"WRITE({frame!r})",), "exit")}
            else:
                want = {((), "raise IPSecureError")}
            chk.ob("send-cell", fi.site(), got == want, f"initialized={initialized} body={body_cls}: code {sorted(got)}; reference {sorted(want)}", key=f"tx|{initialized}|{body_cls}" + ("" if got == want else f"|{sorted(got)}"))
    # sequence information: pre-increment value, single writer
    gi = repo.func(M, "SecureSession.get_sequence_information")
    chk.unit(gi)
    cfg2 = CFG(gi.node)
    am2 = AbsMachine(cfg2, exc, lambda c, e: None)
    paths = Explorer(cfg2, repo, am2.step).run(cfg2.entry, [], {"self._sequence_number": SymInt("n", 0)})
    got = {(repr(p.env.get("#ret")), repr(p.env.get("self._sequence_number")), p.end_kind) for p in paths}
    chk.ob("sequence-info-preincrement", gi.site(), got == {(repr(SymInt("n", 0)), repr(SymInt("n", 1)), "exit")}, f"get_sequence_information: (returned, stored', end) = {sorted(got)}; reference (n, n+1)", key="seqinfo")
    tb = [c for c in calls(gi.node) if method_name(c) == "to_bytes"]
    chk.ob("sequence-info-width", gi.site(), len(tb) == 1 and repo.fold(tb[0].args[0], gi.module, gi.cls) == 6, "sequence information is 6 octets (to_bytes(6) refuses overflow)", key="seqinfo-width")
    ws = [w for w in attr_writes(repo, "_sequence_number", include_mutators=False) if w.func.cls is not None and w.func.cls.name == "SecureSession"]
    for w in ws:
        v = repo.fold(w.stmt.value, w.func.module, w.func.cls) if hasattr(w.stmt, "value") else NOFOLD
        ok = (w.func.name in ("__init__", "connect") and v == 0) or w.func.name == "get_sequence_information"
        chk.ob("send-counter-writer", w.func.site(w.stmt), ok, f"`{canon(w.stmt)}` in {w.func.qualname}", key=f"txw|{w.func.name}|{canon(w.stmt)}")
    chk.floor("send counter writers", len(ws), 2)
    # each wrapped frame consumes exactly one sequence number
    ef = repo.func(M, "_IPSecureTransportLayer.encrypt_frame")
    chk.unit(ef)
    n_get = [c for c in calls(ef.node) if call_name(c) == "self.get_sequence_information"]
    callers = [f.qualname for f, c in call_sites(repo, "get_sequence_information")]
    chk.ob("one-number-per-frame", ef.site(), len(n_get) == 1 and callers == ["_IPSecureTransportLayer.encrypt_frame"], f"encrypt_frame takes one sequence information per frame; callers of get_sequence_information: {callers}", key="one-number-per-frame")
    # the socket write has a single owner; SecureSession overrides send in the MRO
    writes = [(f.qualname, canon(c)) for f in repo.all_functions() for c in calls(f.node) if call_name(c) == "self.transport.write"]
    chk.ob("socket-write-owner", fi.site(), [q for q, _ in writes] == ["TCPTransport.send"], f"stream socket writes: {writes} (only TCPTransport.send, which SecureSession.send overrides)", key="socket-write-owner")
    ss = repo.cls(M, "SecureSession")
    chk.ob("send-override-in-mro", fi.site(), repo.lookup_method(ss, "send") == fi and repo.mro(ss)[1].name == "TCPTransport", f"MRO {[c.name for c in repo.mro(ss)]}", key="send-override")
    # initialized writers
    wi = [w for w in attr_writes(repo, "initialized", include_mutators=False) if w.func.cls is not None and w.func.cls.name == "SecureSession"]
    for w in wi:
        v = repo.fold(w.stmt.value, w.func.module, w.func.cls)
        ok = (w.func.name in ("__init__", "stop") and v is False) or (w.func.name == "connect" and v is True)
        chk.ob("initialized-writer", w.func.site(w.stmt), ok, f"`{canon(w.stmt)}` in {w.func.qualname}", key=f"init|{w.func.name}|{v}")
    con = repo.func(M, "SecureSession.connect")
    chk.unit(con)
    c3 = CFG(con.node)
    hs = [n for n in c3.nodes if n.ast is not None and n.kind == "stmt" and any(call_name(c) == "self.handshake" for c in calls(n.ast))]
    it = [n for n in c3.nodes if isinstance(n.ast, (ast.Assign, ast.AnnAssign)) and ast.unparse(n.ast.targets[0] if isinstance(n.ast, ast.Assign) else n.ast.target) == "self.initialized"]
    au = [n for n in c3.nodes if n.ast is not None and n.kind == "stmt" and any(method_name(c) == "Authenticate" for c in calls(n.ast))]
    ok = len(hs) == 1 and len(it) == 1 and len(au) == 1 and c3.dominates(hs[0].id, it[0].id) and c3.dominates(it[0].id, au[0].id)
    chk.ob("wrap-from-authenticate-on", con.site(), ok, "connect(): handshake (session key) precedes initialized=True, which precedes the SessionAuthenticate request (so everything after the session request is wrapped)", key="wrap-from-authenticate")


def fresh_session(chk: Check, repo: Repo) -> None:
    """Every connect() starts a session nothing recorded earlier can be replayed into: before the SessionRequest goes
    out, on every path, a new ECDH key pair is generated (so the session key differs from every earlier one) and both
    sequence counters are reset; the key pair has no other writer."""
    con = repo.func(M, "SecureSession.connect")
    cfg = CFG(con.node)
    req = [n for n in cfg.nodes if n.ast is not None and n.kind == "stmt" and any(method_name(c) == "Session" for c in calls(n.ast))]
    if len(req) != 1:
        raise AnalysisError("SecureSession.connect: expected one Session(...) request")

    def assigns(pred) -> list:
        out = []
        for n in cfg.nodes:
            if n.kind == "stmt" and isinstance(n.ast, (ast.Assign, ast.AnnAssign)) and pred(n.ast):
                out.append(n)
        return out
    kp = assigns(lambda a: isinstance(a.value, ast.Call) and call_name(a.value) == "generate_ecdh_key_pair" and any(ast.unparse(t) == "self._private_key" for tt in (a.targets if isinstance(a, ast.Assign) else [a.target]) for t in (tt.elts if isinstance(tt, ast.Tuple) else [tt])))
    ok_k = len(kp) == 1 and cfg.dominates(kp[0].id, req[0].id)
    chk.ob("connect-generates-a-fresh-key-pair", con.site(kp[0].ast if kp else None), ok_k, "connect(): `self._private_key, self.public_key = generate_ecdh_key_pair()` is executed on every path before the SessionRequest" if ok_k else "connect(): the ECDH key pair is not regenerated on every path before the SessionRequest — a reconnect re-uses the key, the recorded SessionResponse of an earlier session verifies again and yields the same session key, so that session's wrapped frames are accepted as fresh", key="fresh|keypair")
    # whatever an earlier attempt left behind (initialized flag, session key, keepalive task) is gone before the plain
    # handshake starts: stop() — or at least `initialized = False` — on every path to the SessionRequest
    clears = [n.id for n in cfg.nodes if n.ast is not None and n.kind == "stmt" and (any(call_name(c) == "self.stop" for c in calls(n.ast)) or (isinstance(n.ast, ast.Assign) and ast.unparse(n.ast.targets[0]) == "self.initialized" and isinstance(n.ast.value, ast.Constant) and n.ast.value.value is False))]
    ok_c = any(cfg.dominates(c, req[0].id) for c in clears)
    chk.ob("connect-starts-from-a-stopped-session", con.site(), ok_c, "connect() tears down what an earlier attempt left (stop() / initialized = False) before the SessionRequest" if ok_c else "connect() does not clear `initialized` before the handshake: after an attempt that failed past the handshake (authentication rejected, caller-side timeout) the next SessionRequest is sent WRAPPED with sequence number 0 under the previous session key (nonce reuse), old wrappers are accepted again and the plain SessionResponse is discarded", key="fresh|stopped")
    pub = [k for c in calls(req[0].ast) if method_name(c) == "Session" for k in c.keywords if k.arg == "ecdh_client_public_key"]
    chk.ob("connect-generates-a-fresh-key-pair", con.site(req[0].ast), len(pub) == 1 and ast.unparse(pub[0].value) == "self.public_key", "the SessionRequest carries the public key generated in this connect()", key="fresh|pubkey-sent")
    for attr, val in (("_sequence_number", 0), ("_sequence_number_received", -1)):
        ws_ = assigns(lambda a, attr=attr: any(ast.unparse(t) == f"self.{attr}" for t in (a.targets if isinstance(a, ast.Assign) else [a.target])))
        okc = len(ws_) == 1 and repo.fold(ws_[0].ast.value, con.module, con.cls) == val and cfg.dominates(ws_[0].id, req[0].id)
        # ... and after the teardown of the old session: stop() wraps the old session's CLOSE, which has to carry the old
        # session's next number - not 0 again, which its SessionAuthenticate used
        stops = [n.id for n in cfg.nodes if n.ast is not None and n.kind == "stmt" and any(call_name(c) == "self.stop" for c in calls(n.ast))]
        if okc and stops:
            okc = all(cfg.dominates(s_, ws_[0].id) for s_ in stops)
        chk.ob("connect-resets-the-sequence-counters", con.site(ws_[0].ast if ws_ else None), okc, f"connect(): self.{attr} = {val} on every path before the SessionRequest and after the old session was stopped", key=f"fresh|{attr}")
    for attr in ("_private_key", "public_key"):
        ws_ = [w for w in attr_writes(repo, attr, include_mutators=False) if w.func.cls is not None and w.func.cls.name == "SecureSession"]
        owners = sorted({w.func.name for w in ws_})
        chk.ob("connect-generates-a-fresh-key-pair", con.site(), owners == ["connect"], f"self.{attr} is written only in {owners}", key=f"fresh|writers|{attr}")


def run(chk: Check, repo: Repo) -> None:
    fresh_session(chk, repo)
    table_receive(chk, repo)
    check_decrypt(chk, repo)
    table_send(chk, repo)
    chk.rule("E7 decision tables of SecureSession.handle_knxipframe and send (abstract path enumeration with symbolic ordering of sequence numbers); E4 must-facts gating decrypt_frame's return; E5 writer censuses")
    chk.assume("a CouldNotParseKNXIP raised for a wrapper before initialisation is handled by the stream transport (C22)")
