"""C13 — cEMI link frames round-trip and carry the correct frame type.

 (a) E8 constants: the control-field masks (repeat, broadcast, priority, ack, confirm, hop count,
     extended frame format) + frame-type bit 15 + address-type bit 7 are pairwise disjoint and cover
     16 bits minus the single reserved bit 14; priority/hop masks match their offsets; the enums are
     total over their fields; STANDARD_FRAME_MAX_NPDU_LENGTH == 15, MAX_NPDU_LENGTH == 254.
 (b) E2 bit provenance: CEMIFlags.to_knx(CEMIFlags.from_knx(ctrl)) equals ctrl on every bit except
     frame type, address type and the reserved bit (evaluated over a symbolic 16-bit record, for the
     only extended frame format CEMILData.from_knx accepts).
 (c) CEMILData.to_knx table over {control/data TPDU} x {payload present} x {NPDU length cells}:
     STANDARD iff length <= 15, ConversionError beyond 254 / without payload; hop count out of range
     is refused; the TPCI bits are OR-ed into the first APDU octet unconditionally for data TPDUs;
     address type follows the destination class.
 (d) layout agreement: writer concatenates ctrl(2) src(2) dst(2) len(1) tpdu; reader slices the
     same offsets, derives the destination class from the address-type bit, strips exactly the TPCI
     bits (0xFC) from the first APDU octet and checks the length octet.
"""

from __future__ import annotations

import ast

from .. import bits as B
from ..absmachine import AbsMachine, Obj, Outcome, Raise, UNKNOWN, class_isinstance
from ..astx import call_name, calls, method_name, norm_cmp, walk_local
from ..cfg import CFG
from ..exctable import ExcTable
from ..explore import Explorer
from ..loader import NOFOLD, AnalysisError, EnumMember, Repo
from ..report import Check, canon

FL = "xknx.cemi.flags"
CF = "xknx.cemi.cemi_frame"


def constants(chk: Check, repo: Repo) -> None:
    names = ["RESERVED", "DO_NOT_REPEAT", "BROADCAST", "PRIORITY_MASK", "ACK_REQUESTED", "CONFIRM_ERROR", "HOP_COUNT_MASK", "EXTENDED_FRAME_FORMAT_MASK"]
    vals = {n: repo.module_const(FL, n) for n in names}
    if not isinstance(vals["RESERVED"], int):
        del vals["RESERVED"]  # no mask for the reserved bit: masks-cover reports it
    for n, v in vals.items():
        if not isinstance(v, int):
            raise AnalysisError(f"{FL}.{n} does not fold to an int")
    allm = dict(vals, FRAME_TYPE_BIT=1 << 15, ADDRESS_TYPE_BIT=1 << 7)
    site = "xknx/cemi/flags.py:0:<module>"
    ks = list(allm)
    for i, a in enumerate(ks):
        for b in ks[i + 1:]:
            chk.ob("masks-disjoint", site, allm[a] & allm[b] == 0, f"{a}={allm[a]:#06x} and {b}={allm[b]:#06x} share no bit", key=f"disjoint|{a}|{b}")
    union = 0
    for v in allm.values():
        union |= v
    chk.ob("masks-cover", site, union == 0xFFFF, f"union of all control-field masks = {union:#06x}; required 0xffff (the reserved bit 14 has a mask of its own: it is kept as received)", key="masks-cover")
    po, ho, mh = repo.module_const(FL, "PRIORITY_OFFSET"), repo.module_const(FL, "HOP_COUNT_OFFSET"), repo.module_const(FL, "MAX_HOP_COUNT")
    chk.ob("mask-offset-agreement", site, vals["PRIORITY_MASK"] == 0b11 << po and vals["HOP_COUNT_MASK"] == 0b111 << ho and mh == 7 and vals["EXTENDED_FRAME_FORMAT_MASK"] == 0xF, f"PRIORITY_MASK=0b11<<{po}, HOP_COUNT_MASK=0b111<<{ho}, MAX_HOP_COUNT={mh}, EFF mask 0xF", key="mask-offset")
    for en, want in (("CEMIPriority", {0, 1, 2, 3}), ("CEMIFrameType", {0, 1}), ("CEMIAddressType", {0, 1})):
        m = repo.enum_members(repo.cls(FL, en))
        chk.ob("enum-total", site, set(m.values()) == want, f"{en} values {sorted(m.values())} cover {sorted(want)}", key=f"enum-total|{en}")
    ft = repo.enum_members(repo.cls(FL, "CEMIFrameType")); at = repo.enum_members(repo.cls(FL, "CEMIAddressType"))
    chk.ob("enum-polarity", site, ft.get("STANDARD") == 1 and ft.get("EXTENDED") == 0 and at.get("GROUP") == 1 and at.get("INDIVIDUAL") == 0, f"frame type STANDARD=1/EXTENDED=0, address type GROUP=1/INDIVIDUAL=0 ({ft}, {at})", key="enum-polarity")
    chk.ob("npdu-limits", "xknx/cemi/const.py:0:<module>", repo.module_const("xknx.cemi.const", "STANDARD_FRAME_MAX_NPDU_LENGTH") == 15 and repo.module_const("xknx.cemi.const", "MAX_NPDU_LENGTH") == 254, "STANDARD_FRAME_MAX_NPDU_LENGTH == 15 and MAX_NPDU_LENGTH == 254", key="npdu-limits")
    # bit position helpers of the two derived bits
    for en, sh in (("CEMIFrameType", 15), ("CEMIAddressType", 7)):
        c = repo.cls(FL, en)
        tk, fk = c.methods["to_knx"], c.methods["from_knx"]
        r1 = [n for n in walk_local(tk.node) if isinstance(n, ast.Return)]
        r2 = [n for n in walk_local(fk.node) if isinstance(n, ast.Return)]
        p = fk.node.args.args[1].arg
        ok = len(r1) == 1 and ast.unparse(r1[0].value) == f"self << {sh}" and len(r2) == 1 and ast.unparse(r2[0].value) == f"cls({p} >> {sh} & 1)"
        chk.ob("derived-bit-position", tk.site(), ok, f"{en}: to_knx = {ast.unparse(r1[0].value) if r1 else '?'}; from_knx = {ast.unparse(r2[0].value) if r2 else '?'} (bit {sh})", key=f"derived-bit|{en}")


def flags_roundtrip(chk: Check, repo: Repo) -> None:
    cls = repo.cls(FL, "CEMIFlags")
    fk, tk = cls.methods["from_knx"], cls.methods["to_knx"]
    chk.unit(fk); chk.unit(tk)
    exc = ExcTable(repo)
    enums = {c.name for c in repo.all_classes() if c.module.name == FL and repo.is_enum(c)}
    raw = B.BitRec(tuple((i, 1, B.SymBits(f"c{i}", 1)) for i in range(4, 16)))  # EFF nibble = 0 (STANDARD)
    cfg = CFG(fk.node)
    box = {}

    def hook(e, env):
        if isinstance(e, ast.Name):
            v = repo.module_const(FL, e.id)
            if v is not NOFOLD and isinstance(v, int):
                return v
        return UNKNOWN

    def cm(c: ast.Call, env):
        n = call_name(c)
        am = box["am"]
        if n == "cls" or n == "CEMIFlags":
            return [Outcome(None, Obj("CEMIFlags", "", tuple((k.arg, am.ev(k.value, env, {})) for k in c.keywords if k.arg)))]
        if n == "CEMIFrameType.from_knx":
            return [Outcome(None, B.shr(am.ev(c.args[0], env, {}), 15))]
        return None

    am = AbsMachine(cfg, exc, cm, hook)
    am.enum_classes = enums
    box["am"] = am
    p0 = fk.node.args.args[1].arg
    paths = Explorer(cfg, repo, am.step).run(cfg.entry, [], {p0: raw})
    objs = [p.env.get("#ret") for p in paths if p.end == cfg.exit]
    if len(objs) != 1 or not isinstance(objs[0], Obj):
        chk.ob("flags-reader-single-path", fk.site(), False, f"CEMIFlags.from_knx did not evaluate to a single construction over the symbolic control field ({len(paths)} paths, ends {[p.end_kind for p in paths]})", key="flags-reader")
        return
    obj = objs[0]
    cfg2 = CFG(tk.node)

    def hook2(e, env):
        if isinstance(e, ast.Attribute) and isinstance(e.value, ast.Name) and e.value.id == "self":
            return obj.get(e.attr)
        return hook(e, env)

    am2 = AbsMachine(cfg2, exc, lambda c, e: None, hook2)
    paths2 = Explorer(cfg2, repo, am2.step).run(cfg2.entry, [], {})
    outs = [p.env.get("#ret") for p in paths2 if p.end == cfg2.exit]
    others = [p for p in paths2 if p.end != cfg2.exit]
    # the reserved bit 14 is kept: re-serialising a received frame may change nothing but the derived bits
    mask = 0xFFFF & ~((1 << 15) | (1 << 7))
    ok = len(outs) == 1 and not others and B.eq(B.band(outs[0], mask), B.band(raw, mask)) is True
    chk.ob("flags-roundtrip-identity", tk.site(), ok, f"to_knx(from_knx(ctrl)) = {outs[0] if outs else None!r}; required: ctrl on all bits but frame type (15) and address type (7) - including the reserved bit 14; other paths: {[(p.end_kind, p.env.get('#raised')) for p in others]}", key="flags-roundtrip")
    # derived bits are left clear by the flags writer
    if len(outs) == 1:
        clear = B.band(outs[0], (1 << 15) | (1 << 7))
        chk.ob("flags-leave-derived-bits-clear", tk.site(), clear == 0, f"CEMIFlags.to_knx leaves frame type / address type bits clear ({clear!r})", key="flags-derived-clear")
    # hop count guard
    for hc, want in ((-1, "raise"), (0, "exit"), (7, "exit"), (8, "raise")):
        def hook3(e, env, hc=hc):
            if isinstance(e, ast.Attribute) and isinstance(e.value, ast.Name) and e.value.id == "self":
                return hc if e.attr == "hop_count" else (obj.get(e.attr) if e.attr != "frame_format" else 0)
            return hook(e, env)
        am3 = AbsMachine(cfg2, exc, lambda c, e: None, hook3)
        ends = {(p.end_kind, p.env.get("#raised")) for p in Explorer(cfg2, repo, am3.step).run(cfg2.entry, [], {})}
        chk.ob("hop-count-range", tk.site(), ends == ({("exit", None)} if want == "exit" else {("raise", "ConversionError")}), f"hop_count={hc}: {sorted(map(str, ends))}; required {want}", key=f"hop|{hc}")


def ldata_writer(chk: Check, repo: Repo) -> None:
    fi = repo.func(CF, "CEMILData.to_knx")
    chk.unit(fi)
    cfg = CFG(fi.node)
    exc = ExcTable(repo)
    std = repo.module_const("xknx.cemi.const", "STANDARD_FRAME_MAX_NPDU_LENGTH"); mx = repo.module_const("xknx.cemi.const", "MAX_NPDU_LENGTH")

    def hook(e, env):
        if isinstance(e, ast.Name):
            v = repo.module_const(CF, e.id)
            if v is not NOFOLD and isinstance(v, int):
                return v
        if isinstance(e, ast.Attribute):
            v = repo.fold(e, fi.module, fi.cls)
            if isinstance(v, EnumMember):
                return v
        return UNKNOWN

    rets0 = [n for n in walk_local(fi.node) if isinstance(n, ast.Return)]
    if len(rets0) != 1:
        raise AnalysisError("CEMILData.to_knx: expected one return")
    ret_parts: list[ast.AST] = []

    def flat0(e: ast.AST) -> None:
        if isinstance(e, ast.BinOp) and isinstance(e.op, ast.Add):
            flat0(e.left); flat0(e.right)
        else:
            ret_parts.append(e)
    flat0(rets0[0].value)

    def or_terms(e: ast.AST) -> list[ast.AST]:
        if isinstance(e, ast.BinOp) and isinstance(e.op, ast.BitOr):
            return or_terms(e.left) + or_terms(e.right)
        return [e]
    own = Obj("TPCI", "own")
    for control, payload, fits in ((c_, p_, f_) for c_ in (False, True) for p_ in (None, "apci") for f_ in ("same", "other", "refused")):
            # `fits`: what the receiver's decision tree (TPCI.resolve) makes of this PDU's octet for this destination -
            # the same PDU, another one (eg. T_Data_Group to an individual address reads as T_Data_Individual, a sequence
            # number beyond 15 wraps), or nothing (eg. T_Connect to a group address)
            for n in ((0, 1, 15, 16, 254, 255) if (not control and payload and fits == "same") else (0,)):
                def cm(c: ast.Call, env, n=n, fits=fits):
                    nm = call_name(c)
                    if nm == "self.payload.calculated_length":
                        return [Outcome(None, n)]
                    if nm == "self.payload.to_knx":
                        return [Outcome(None, Obj("bytearray", "apdu"))]
                    if nm == "TPCI.resolve":
                        return [Outcome(None, own if fits == "same" else (Obj("TPCI", "other") if fits == "other" else Raise("ConversionError")))]
                    return None
                am = AbsMachine(cfg, exc, cm, hook)
                am.isinstance_fn = class_isinstance(repo)
                env = {"self.tpci": own, "self.tpci.control": control, "self.payload": Obj("GroupValueWrite", "p") if payload else None}
                paths = Explorer(cfg, repo, am.step).run(cfg.entry, [], env)
                got = set()
                for p in paths:
                    ft = nl = None
                    if p.end_kind == "exit":
                        # what the frame carries is read off the returned concatenation (not off local names)
                        for part in ret_parts:
                            if isinstance(part, ast.Call) and isinstance(part.func, ast.Attribute) and part.func.attr == "to_bytes" and part.args:
                                width = repo.fold(part.args[0], fi.module, fi.cls)
                                recv = part.func.value
                                if width == 2:
                                    for term in or_terms(recv):
                                        if isinstance(term, ast.Call) and isinstance(term.func, ast.Attribute) and term.func.attr == "to_knx":
                                            v = am.ev(term.func.value, p.env, {})
                                            if isinstance(v, EnumMember) and v.enum.endswith("CEMIFrameType"):
                                                ft = v
                                elif width == 1:
                                    nl = am.ev(recv, p.env, {})
                    got.add((p.end_kind if p.end_kind != "raise" else f"raise {p.env.get('#raised')}", ft.name if isinstance(ft, EnumMember) else None, nl if p.end_kind == "exit" else None))
                if fits != "same":
                    want = {("raise ConversionError", None, None)}  # what can not come back as itself is not sent
                elif control and payload:
                    want = {("raise ConversionError", None, None)}  # a control TPDU has no room for a payload - dropping it silently is not "the same payload"
                elif control:
                    want = {("exit", "STANDARD", 0)}
                elif not payload:
                    want = {("raise ConversionError", None, None)}
                elif n > mx:
                    want = {("raise ConversionError", None, None)}
                else:
                    want = {("exit", "STANDARD" if n <= std else "EXTENDED", n)}
                chk.ob("frame-type-cell", fi.site(), got == want, f"control={control} payload={'present' if payload else 'None'} receiver reads the TPCI as {fits} npdu_len={n}: code {sorted(map(str, got))}; reference {sorted(map(str, want))}", key=f"ft|{fits}|{control}|{payload}|{n}" + ("" if got == want else f"|{sorted(map(str, got))}"))
    # TPCI merge: unconditional inside the data branch
    mf = cfg.must_facts()
    tp_name = ret_parts[-1].id if isinstance(ret_parts[-1], ast.Name) else "?"
    merges = [n for n in cfg.nodes if isinstance(n.ast, ast.AugAssign) and isinstance(n.ast.op, ast.BitOr) and ast.unparse(n.ast.target) == f"{tp_name}[0]" and ast.unparse(n.ast.value) == "self.tpci.to_knx()"]
    ok = len(merges) == 1
    extra = []
    if ok:
        ret_nodes = [n for n in cfg.nodes if n.ast is rets0[0]]
        always = set(mf[ret_nodes[0].id]) if ret_nodes else set()  # gates every frame passes, not conditions of the merge
        for t, v in mf[merges[0].id]:
            if (t, v) in always:
                continue
            if t == "self.tpci.control" and v is False:
                continue
            if t.startswith("isinstance(self.payload") and v is True:
                continue
            extra.append((t, v))
        ok = not extra
        pay = [n for n in cfg.nodes if isinstance(n.ast, ast.Assign) and ast.unparse(n.ast.targets[0]) == tp_name and ast.unparse(n.ast.value) == "self.payload.to_knx()"]
        ok = ok and len(pay) == 1 and cfg.dominates(pay[0].id, merges[0].id)
    chk.ob("tpci-merged-unconditionally", fi.site(), ok, f"the data TPDU is self.payload.to_knx() with `[0] |= self.tpci.to_knx()` executed for every data TPDU (guards on the path besides data/payload tests: {extra})", key="tpci-merge")
    ctrl = [n for n in cfg.nodes if isinstance(n.ast, ast.Assign) and ast.unparse(n.ast.targets[0]) == tp_name and ast.unparse(n.ast.value) == "self.tpci.to_knx().to_bytes(1, 'big')"]
    chk.ob("control-tpdu-is-tpci-octet", fi.site(), len(ctrl) == 1 and ("self.tpci.control", True) in mf[ctrl[0].id], "a control TPDU is exactly the TPCI octet", key="control-tpdu")
    # layout of the returned concatenation: 2 control octets (flags | frame type | address type), source, destination, length octet, TPDU
    layout_ok = len(ret_parts) == 5 and isinstance(ret_parts[-1], ast.Name)
    if layout_ok:
        c0, c1, c2, c3, _ = ret_parts
        layout_ok = isinstance(c0, ast.Call) and isinstance(c0.func, ast.Attribute) and c0.func.attr == "to_bytes" and [repo.fold(a, fi.module, fi.cls) for a in c0.args] == [2, "big"]
        if layout_ok:
            terms = sorted(ast.unparse(t) for t in or_terms(c0.func.value))
            ft_terms = [t for t in or_terms(c0.func.value) if isinstance(t, ast.Call) and isinstance(t.func, ast.Attribute) and t.func.attr == "to_knx" and isinstance(t.func.value, ast.Name)]
            layout_ok = len(terms) == 3 and "self.flags.to_knx()" in terms and "self.address_type.to_knx()" in terms and len(ft_terms) == 1
        layout_ok = layout_ok and ast.unparse(c1) == "self.src_addr.to_knx()" and ast.unparse(c2) == "self.dst_addr.to_knx()"
        layout_ok = layout_ok and isinstance(c3, ast.Call) and isinstance(c3.func, ast.Attribute) and c3.func.attr == "to_bytes" and [repo.fold(a, fi.module, fi.cls) for a in c3.args] == [1, "big"] and isinstance(c3.func.value, ast.Name)
    chk.ob("writer-layout", fi.site(), layout_ok, f"to_knx concatenates {[ast.unparse(x)[:70] for x in ret_parts]} (required: control field = flags | frame type | address type in 2 octets, source, destination, NPDU length octet, TPDU)", key="writer-layout")
    # address type property
    at = repo.func(CF, "CEMILData.address_type")
    chk.unit(at)
    cfg_a = CFG(at.node)
    for dcls, want in (("GroupAddress", "GROUP"), ("IndividualAddress", "INDIVIDUAL")):
        am = AbsMachine(cfg_a, exc, lambda c, e: None, hook)
        am.isinstance_fn = class_isinstance(repo)
        rets_ = {getattr(p.env.get("#ret"), "name", None) for p in Explorer(cfg_a, repo, am.step).run(cfg_a.entry, [], {"self.dst_addr": Obj(dcls, "d")})}
        chk.ob("address-type-follows-destination", at.site(), rets_ == {want}, f"destination {dcls}: address type {sorted(map(str, rets_))}, required {want}", key=f"at|{dcls}")


def ldata_reader(chk: Check, repo: Repo) -> None:
    fi = repo.func(CF, "CEMILData.from_knx")
    chk.unit(fi)
    raw = fi.node.args.args[1].arg
    src = ast.unparse(fi.node)
    from ..astx import inline_locals
    # what each field of the returned frame is, as an expression over `raw` only (locals inlined: names do not matter)
    ctor = [n.value for n in walk_local(fi.node) if isinstance(n, ast.Return) and isinstance(n.value, ast.Call) and call_name(n.value) in ("cls", "CEMILData")]
    chk.floor("CEMILData.from_knx returns", len(ctor), 2)
    ctl = f"int.from_bytes({raw}[0:2], 'big')"
    grp = f"CEMIAddressType.from_knx({ctl}) is CEMIAddressType.GROUP"
    dst = f"GroupAddress.from_knx({raw}[4:6]) if {grp} else IndividualAddress.from_knx({raw}[4:6])"
    apdu = f"bytes([{raw}[7:][0] & 3]) + {raw}[7:][1:]"
    want = {
        "flags": f"CEMIFlags.from_knx({ctl})",
        "src_addr": f"IndividualAddress.from_knx({raw}[2:4])",
        "dst_addr": dst,
        "tpci": f"TPCI.resolve(dst_is_group_address={grp}, dst_is_zero=not ({dst}).raw, raw_tpci={raw}[7:][0])",
    }

    def itext(e: ast.AST) -> str:
        x = inline_locals(fi.node, e, depth=8)
        for c_ in ast.walk(x):  # keyword arguments in a fixed order: their order in the source does not matter
            if isinstance(c_, ast.Call) and all(k.arg is not None for k in c_.keywords):
                c_.keywords.sort(key=lambda k: k.arg)
        return ast.unparse(x)
    for c in ctor:
        kw = {k.arg: k.value for k in c.keywords}
        kind = "control" if isinstance(kw.get("payload"), ast.Constant) else "data"
        for k, v in want.items():
            got = itext(kw[k]) if k in kw else None
            chk.ob("reader-layout", fi.site(c), got == v, f"{kind} frame: {k} = {got!r}; required {v!r}", key=f"reader|{kind}|{k}")
        if kind == "data":
            got = itext(kw["payload"]) if "payload" in kw else None
            chk.ob("reader-apdu", fi.site(c), got == f"APCI.from_knx({apdu})", f"payload = {got!r}: the APDU handed to the application layer is the TPDU with the TPCI bits cleared", key="reader-apdu")
    cfg = CFG(fi.node)
    mf = cfg.must_facts()
    rets = [n for n in cfg.nodes if isinstance(n.ast, ast.Return)]
    for r in rets:
        facts = {(itext(ast.parse(t, mode="eval").body), v) for t, v in mf[r.id]}
        len_ok = (f"len({apdu}) != {raw}[6] + 1", False) in facts
        eff_ok = (f"CEMIFlags.from_knx({ctl}).frame_format is not CEMIFrameFormat.STANDARD", False) in facts
        is_ctrl = isinstance(r.ast.value, ast.Call) and any(k.arg == "payload" and isinstance(k.value, ast.Constant) for k in r.ast.value.keywords)
        # a length the writer refuses (> MAX_NPDU_LENGTH: FFh is reserved) is refused by the reader too - else a received
        # frame (and the telegram made of it) cannot be serialised again
        res_ok = any(v is want_v and t in (f"{raw}[6] {op} MAX_NPDU_LENGTH",) for t, v in facts for op, want_v in ((">", False), ("<=", True))) or \
                 any(v is want_v and t in (f"MAX_NPDU_LENGTH {op} {raw}[6]",) for t, v in facts for op, want_v in (("<", False), (">=", True)))
        chk.ob("reader-refuses-the-reserved-length", fi.site(r.ast), res_ok, f"a frame is returned only when its length octet is at most MAX_NPDU_LENGTH ({res_ok})", key=f"reader-reserved-len|{'control' if is_ctrl else 'data'}")
        chk.ob("reader-gates", fi.site(r.ast), len_ok and eff_ok, f"a frame is returned only when the length octet matches ({len_ok}) and the extended frame format is STANDARD ({eff_ok})", key=f"reader-gates|{'control' if is_ctrl else 'data'}")


def run(chk: Check, repo: Repo) -> None:
    constants(chk, repo)
    flags_roundtrip(chk, repo)
    ldata_writer(chk, repo)
    ldata_reader(chk, repo)
    from .apci_common import received_pdus_can_be_serialised_again
    received_pdus_can_be_serialised_again(chk, repo)
    chk.rule("E8 mask/enum constant consistency; E2 bit-record evaluation of CEMIFlags.from_knx -> to_knx over a symbolic control field; E7 table of CEMILData.to_knx over NPDU-length cells; structural writer/reader layout agreement")
    chk.assume("APDU octets beyond the TPCI merge round-trip per C05; addresses per C01")
