"""C40 — cover position estimates stay within bounds and never fail (structural part).

 (a) single clock snapshot: on every path through every function of the `current_position` call tree the clock
     (`time.time()`) is read at most once — a second reading may lie past a deadline the first one was compared with
     (progress > 1 => estimate beyond the target).
 (b) the interpolation is guarded: the quotient `(now - last_timestamp) / remaining` is computed only where
     `now >= last_timestamp + remaining` is false, for the same `now` and `remaining`; with non-decreasing clock
     readings (now >= last_timestamp) this gives remaining > 0 and 0 <= progress < 1, i.e. an estimate between the
     last known position and the target and no division by zero.
 (c) E1: current_position / is_traveling / position_reached / stop / start_travel / update_position / set_position
     raise nothing (the two divisions are discharged by (b) and by the ownership census of position_closed).
 (d) every value `current_position` can return is an int or None: `int(..)` of the interpolation or an attribute
     annotated int | None.
Does not decide monotonicity over command histories or the 'reaches the target exactly when the time has elapsed'
arithmetic.
"""

from __future__ import annotations

import ast

from ..astx import attr_writes, call_name, calls, walk_local
from ..cfg import CFG
from ..loader import AnalysisError, Repo
from ..report import Check, canon
from .e1_common import check_entry, engine, finish

M = "xknx.devices.travelcalculator"


def call_tree(repo: Repo, root: str) -> list:
    cls = repo.cls(M, "TravelCalculator")
    seen, order, work = set(), [], [root]
    while work:
        q = work.pop()
        if q in seen or q not in cls.methods:
            continue
        seen.add(q)
        f = cls.methods[q]
        order.append(f)
        for c in calls(f.node):
            n = call_name(c)
            if n.startswith("self."):
                work.append(n[5:])
    return order


def max_clock_reads(f) -> tuple[int, list[str]]:
    """maximum number of clock-reading statements on any acyclic path of the CFG (nested helper defs excluded)."""
    cfg = CFG(f.node)

    def reads(n) -> int:
        if n.ast is None or n.kind not in ("stmt", "test"):
            return 0
        return sum(1 for x in ast.walk(n.ast) if isinstance(x, ast.Call) and call_name(x) in ("time.time", "time.monotonic", "time.perf_counter"))
    best: dict[int, int] = {}
    sites: list[str] = []
    order = list(range(len(cfg.nodes)))
    # longest path by DFS with memo on (node) — the CFGs here are acyclic (no loops); guard against cycles
    memo: dict[int, int] = {}
    onstack: set[int] = set()

    def go(i: int) -> int:
        if i in memo:
            return memo[i]
        if i in onstack:
            raise AnalysisError(f"{f.qualname}: loop in a clock-reading function")
        onstack.add(i)
        n = cfg.nodes[i]
        m = max([go(t) for t, lab in n.succ] or [0])
        onstack.discard(i)
        memo[i] = reads(n) + m
        return memo[i]
    total = go(cfg.entry)
    for n in cfg.nodes:
        if reads(n):
            sites.append(canon(n.ast)[:70])
    return total, sites


def command_ordering(chk: Check, repo: Repo, cls) -> None:
    """stop(): current_position() is evaluated before any attribute of the calculator is written (the estimate depends
    on travel_direction, the last known position, the target and the timestamp).  start_travel(): every attribute
    write on the travelling path comes after self.stop() has frozen the estimate, and the values written are computed
    from the parameter and attributes read after that point (no local computed before stop())."""
    st = cls.methods["stop"]
    cfg = CFG(st.node)
    est = [n for n in cfg.nodes if n.ast is not None and n.kind == "stmt" and any(isinstance(x, ast.Call) and call_name(x) == "self.current_position" for x in ast.walk(n.ast))]
    writes = [n for n in cfg.nodes if n.ast is not None and n.kind == "stmt" and isinstance(n.ast, (ast.Assign, ast.AugAssign, ast.AnnAssign)) and any(isinstance(t, ast.Attribute) and isinstance(t.ctx, ast.Store) for t in ast.walk(n.ast))]
    ok = len(est) == 1 and bool(writes) and all(cfg.dominates(est[0].id, w.id) for w in writes)
    early = [canon(w.ast)[:50] for w in writes if est and not cfg.dominates(est[0].id, w.id)]
    chk.ob("estimate-frozen-before-state-changes", st.site(), ok, f"stop(): current_position() precedes every attribute write" + (f" — written before the estimate is taken: {early}" if early else ""), key="order|stop")
    sv = cls.methods["start_travel"]
    cfg = CFG(sv.node)
    stops = [n for n in cfg.nodes if n.ast is not None and n.kind == "stmt" and any(isinstance(x, ast.Call) and call_name(x) == "self.stop" for x in ast.walk(n.ast))]
    writes = [n for n in cfg.nodes if n.ast is not None and n.kind == "stmt" and isinstance(n.ast, (ast.Assign, ast.AugAssign, ast.AnnAssign)) and any(isinstance(t, ast.Attribute) and isinstance(t.ctx, ast.Store) for t in ast.walk(n.ast))]
    params = {a.arg for a in sv.node.args.args}
    ok = len(stops) == 1 and bool(writes)
    probs = []
    for w in writes:
        if not stops or not cfg.dominates(stops[0].id, w.id):
            ok = False
            probs.append(f"`{canon(w.ast)[:50]}` is not preceded by self.stop()")
            continue
        for x in ast.walk(w.ast.value if not isinstance(w.ast, ast.AugAssign) else w.ast.value):
            if isinstance(x, ast.Name) and isinstance(x.ctx, ast.Load) and x.id not in params and x.id not in ("self", "time", "TravelStatus"):
                defs = [n for n in cfg.nodes if n.ast is not None and n.kind == "stmt" and isinstance(n.ast, (ast.Assign, ast.AnnAssign)) and any(isinstance(t, ast.Name) and t.id == x.id and isinstance(t.ctx, ast.Store) for t in ast.walk(n.ast))]
                if not defs or not all(cfg.dominates(stops[0].id, d.id) for d in defs):
                    ok = False
                    probs.append(f"`{canon(w.ast)[:50]}` uses `{x.id}`, computed before self.stop() froze the estimate")
    chk.ob("new-movement-derived-from-the-frozen-estimate", sv.site(), ok, "start_travel(): every attribute write follows self.stop() and uses only values read after it" + (" — " + "; ".join(probs) if probs else ""), key="order|start_travel")


def inline_pos(f, e: ast.AST) -> ast.AST:
    """e with the function's single-definition locals inlined (relative_position -> target - last known ...)"""
    from ..astx import inline_locals
    return inline_locals(f.node, e)


def report_and_direction(chk: Check, repo: Repo, cls) -> None:
    """(1) A position report re-anchors the estimate: update_position() stores the reported value and the time of the
    report unconditionally — also when the value equals the last known one (a report "still at 20" five seconds into a
    travel means 20 now, not 20 five seconds ago).  (2) Whether the cover is moving is a question of time (is_traveling:
    estimate != target); `travel_direction` is only reset by stop() and stays on the old direction after a travel that
    ended by time alone, so nothing outside the calculator decides "moving" by it (Cover.stop may read it to pick the
    step direction)."""
    up = cls.methods["update_position"]
    chk.unit(up)
    cfg = CFG(up.node)
    p0 = up.node.args.args[1].arg
    def assigns(attr: str):
        return [n for n in cfg.nodes if n.kind == "stmt" and isinstance(n.ast, ast.Assign) and ast.unparse(n.ast.targets[0]) == f"self.{attr}"]
    pos, ts = assigns("_last_known_position"), assigns("_last_known_position_timestamp")
    ok = len(pos) == 1 and len(ts) == 1 and ast.unparse(pos[0].ast.value) == p0 and call_name(ts[0].ast.value) in ("time.time", "time.monotonic") if len(ts) == 1 and isinstance(ts[0].ast.value, ast.Call) else False
    ok = ok and cfg.all_paths_hit(cfg.entry, [pos[0].id], [cfg.exit], edge_ok=cfg.normal_only) and cfg.all_paths_hit(cfg.entry, [ts[0].id], [cfg.exit], edge_ok=cfg.normal_only)
    chk.ob("report-re-anchors-the-estimate", up.site(), ok, "update_position(): position and timestamp are stored on every path" if ok else "update_position() does not store the reported position and the time of the report on every path (e.g. skips an unchanged value): the estimate keeps interpolating from the older anchor — it is ahead of the reported value and reaches the target before the travel time has elapsed", key="report|anchor")
    readers = sorted({f.qualname for f in repo.all_functions() if f.cls is not cls for n in ast.walk(f.node) if isinstance(n, ast.Attribute) and n.attr == "travel_direction" and isinstance(n.ctx, ast.Load)})
    chk.ob("moving-is-decided-by-time-not-by-the-direction-flag", f"{cls.module.relpath}:{cls.node.lineno}:{cls.name}", set(readers) <= {"Cover.stop"}, f"`travel_direction` is read outside TravelCalculator in {readers} (allowed: Cover.stop, to choose the step direction)", key="direction|readers")
    # ... and inside the calculator neither the estimate nor "is it moving" consults the flag: after stop() (flag
    # STOPPED) a position report still re-anchors an estimate that runs to the stop position; only the direction
    # predicates and the reached-or-exceeded test of the interpolation read it
    inner = sorted({m.name for m in cls.methods.values() for n in ast.walk(m.node) if isinstance(n, ast.Attribute) and n.attr == "travel_direction" and isinstance(n.ctx, ast.Load)})
    chk.ob("moving-is-decided-by-time-not-by-the-direction-flag", f"{cls.module.relpath}:{cls.node.lineno}:{cls.name}", {"current_position", "is_traveling"}.isdisjoint(inner), f"`travel_direction` is read inside TravelCalculator by {inner}; never by current_position / is_traveling themselves - a stopped calculator that received a report would freeze on it while is_traveling() stays true", key="direction|inner-readers")
    cv = repo.func("xknx.devices.cover", "Cover._current_position_from_rv")
    chk.unit(cv)
    ccfg = CFG(cv.node)
    mf = ccfg.must_facts()
    upd = [n for n in ccfg.nodes if n.ast is not None and n.kind == "stmt" and any(call_name(c).endswith("travelcalculator.update_position") for c in calls(n.ast))]
    setp = [n for n in ccfg.nodes if n.ast is not None and n.kind == "stmt" and any(call_name(c).endswith("travelcalculator.set_position") for c in calls(n.ast))]
    moving = ("self.is_traveling()", "self.travelcalculator.is_traveling()")
    ok2 = len(upd) == 1 and len(setp) == 1 and any((t, True) in mf[upd[0].id] for t in moving) and any((t, False) in mf[setp[0].id] for t in moving)
    chk.ob("moving-is-decided-by-time-not-by-the-direction-flag", cv.site(), ok2, "a position report updates the running estimate exactly while is_traveling(), and sets the position otherwise", key="direction|report-branch")


def run(chk: Check, repo: Repo) -> None:
    cls = repo.cls(M, "TravelCalculator")
    report_and_direction(chk, repo, cls)
    tree = call_tree(repo, "current_position")
    chk.floor("functions below current_position", len(tree), 3)
    for f in tree:
        chk.unit(f)
        k, sites = max_clock_reads(f)
        # reads through callees on the same path: a callee that reads the clock counts as one read at its call site
        callee_reads = 0
        cfg = CFG(f.node)
        for c in calls(f.node):
            n = call_name(c)
            if n.startswith("self.") and n[5:] in cls.methods and n[5:] != f.name:
                ck, _ = max_clock_reads(cls.methods[n[5:]])
                callee_reads = max(callee_reads, ck)
        chk.ob("clock-read-at-most-once-per-estimate", f.site(), k + callee_reads <= 1, f"{f.qualname}: at most {k} clock reading(s) on a path ({sites}) plus {callee_reads} through a callee", key=f"clock|{f.qualname}")
    # (b) guarded interpolation
    cp = cls.methods["_calculate_position"]
    cfg = CFG(cp.node)
    mf = cfg.must_facts()
    divs = [(n, x) for n in cfg.nodes if n.ast is not None and n.kind == "stmt" for x in ast.walk(n.ast) if isinstance(x, ast.BinOp) and isinstance(x.op, ast.Div)]
    chk.floor("_calculate_position: interpolation quotients", len(divs), 1)
    guarded_ok = False
    for n, d in divs:
        num, den = ast.unparse(d.left), ast.unparse(d.right)
        ok = False
        why = "no dominating deadline test"
        if isinstance(d.left, ast.BinOp) and isinstance(d.left.op, ast.Sub):
            now, ts = ast.unparse(d.left.left), ast.unparse(d.left.right)
            want = (f"{now} >= {ts} + {den}", f"{ts} + {den} <= {now}")
            hit = [a for a, v in mf[n.id] if v is False and a in want]
            is_local = isinstance(d.left.left, ast.Name) and len([s for s in walk_local(cp.node) if isinstance(s, ast.Assign) and isinstance(s.targets[0], ast.Name) and s.targets[0].id == d.left.left.id]) == 1
            ok = bool(hit) and is_local
            why = f"computed only where `{want[0]}` is false, `{now}` being one clock reading" if ok else f"`{want[0]}` false is not established for a single reading `{now}`"
        guarded_ok = guarded_ok or ok
        chk.ob("interpolation-guarded-by-the-same-reading", cp.site(d), ok, f"`{num} / {den}`: {why} => 0 <= progress < 1 for non-decreasing clock readings, and the divisor is positive", key="guard|progress")
    # (c) no exception
    mr = engine(repo)
    pc_writes = [w for w in attr_writes(repo, "position_closed", include_mutators=False)]
    pc_ok = all(w.func.qualname == "TravelCalculator.__init__" and isinstance(w.stmt, (ast.Assign, ast.AnnAssign)) and isinstance(w.stmt.value, ast.Constant) and w.stmt.value.value not in (0, None) for w in pc_writes) and bool(pc_writes)
    reviewed = {
        "ZeroDivisionError|TravelCalculator._calculate_position|(time.time() - self._last_known_position_timestamp) / self.calculate_travel_time(…": ("the quotient is computed only where now < timestamp + remaining for the same reading; readings are non-decreasing, so remaining > 0", lambda: guarded_ok),
        "ZeroDivisionError|TravelCalculator.calculate_travel_time|… / self.position_closed": ("position_closed is the constant 100 set in __init__ and never written elsewhere", lambda: pc_ok),
    }
    for exc in ("OverflowError", "ValueError"):
        # either shape of the interpolation: int(last + rel * progress) or last + int(rel * progress)
        for form in ("int((self._travel_to_position - self._last_known_position) * (…", "int(self._last_known_position + (self._travel_to_position - self._last_known_position) * (…"):
            reviewed[f"{exc}|TravelCalculator._calculate_position|{form}"] = ("progress lies in [0, 1) by the guard and the positions are ints, so the interpolated value is finite", lambda: guarded_ok)
    for q in ("current_position", "is_traveling", "position_reached", "stop", "start_travel", "update_position", "set_position", "is_open", "is_closed"):
        if q in cls.methods:
            check_entry(chk, mr, cls.methods[q], (), label=f"TravelCalculator.{q}", reviewed=reviewed)
    # (e) command ordering: the estimate is frozen under the old movement state, the new state is derived from it
    command_ordering(chk, repo, cls)
    # (d') the interpolation truncates the *distance travelled*, not the position: `int(last + rel * progress)` rounds
    # towards zero - for an upward move (towards 0) that is towards the target: the estimate is a step ahead from the first
    # instant and shows the target before the travel time has elapsed
    cp_ = cls.methods["_calculate_position"]
    trunc = [c for r in walk_local(cp_.node) if isinstance(r, ast.Return) and r.value is not None for c in ast.walk(r.value) if isinstance(c, ast.Call) and call_name(c) in ("int", "math.floor", "floor", "math.trunc", "round")]
    def truncates_the_position(c: ast.Call) -> bool:
        """the truncated expression has the last known position as an additive term (position, not distance)"""
        if not c.args:
            return False
        terms, stack = [], [inline_pos(cp_, c.args[0])]
        while stack:
            t = stack.pop()
            if isinstance(t, ast.BinOp) and isinstance(t.op, (ast.Add, ast.Sub)):
                stack += [t.left, t.right]
            else:
                terms.append(t)
        return any(isinstance(t, ast.Attribute) and t.attr == "_last_known_position" for t in terms)
    ahead = [c for c in trunc if truncates_the_position(c)]
    chk.ob("interpolation-truncates-the-distance-travelled", cp_.site(), bool(trunc) and not ahead, "the interpolated estimate is last + int(rel * progress): whole steps travelled, never ahead of the drive in either direction" if trunc and not ahead else f"`{ast.unparse(ahead[0]) if ahead else '?'}` truncates the position towards zero: an upward move is one step ahead and reaches the target before the travel time has elapsed", key="interp|truncation")
    # (d) integer results
    for q in ("current_position", "_calculate_position"):
        f = cls.methods[q]
        for r in [n for n in walk_local(f.node) if isinstance(n, ast.Return)]:
            v = r.value
            int_sum = isinstance(v, ast.BinOp) and isinstance(v.op, (ast.Add, ast.Sub)) and all((isinstance(t, ast.Call) and call_name(t) in ("int", "round")) or (isinstance(t, ast.Attribute) and t.attr in ("_last_known_position", "_travel_to_position")) for t in (v.left, v.right))
            ok = v is None or int_sum or (isinstance(v, ast.Call) and call_name(v) in ("int", "self._calculate_position", "round")) or (isinstance(v, ast.Attribute) and isinstance(v.value, ast.Name) and v.value.id == "self" and v.attr in ("_last_known_position", "_travel_to_position"))
            chk.ob("estimate-is-int-or-none", f.site(r), ok, f"{f.qualname}: returns `{ast.unparse(v) if v is not None else None}`", key=f"int|{f.qualname}|{canon(r)[:60]}")
    ann = {}
    ini = cls.methods["__init__"]
    for n in walk_local(ini.node):
        if isinstance(n, ast.AnnAssign) and isinstance(n.target, ast.Attribute):
            ann[n.target.attr] = ast.unparse(n.annotation)
    chk.ob("estimate-is-int-or-none", ini.site(), ann.get("_last_known_position") == "int | None" and ann.get("_travel_to_position") == "int | None", f"position attributes are annotated {ann.get('_last_known_position')} / {ann.get('_travel_to_position')}", key="int|attrs")
    chk.rule("E4 longest-path count of clock readings per function of the estimate's call tree; must-facts guard on the interpolation quotient; E1 may-raise analysis of the query / command methods; return-shape census")
    chk.assume("clock readings are non-decreasing (the property's own premise); positions handed in are ints (annotations, mypy)")
    finish(chk, mr)
