"""C36 — registered tasks follow connection state and never run twice (structural part).

Small decision tables by abstract path enumeration:
 * Task.cancel / restart / connection_lost / reconnected over {restart_after_reconnect} x {running?};
 * Task._start_internal: a restart-after-reconnect task that waits for a connection returns (is not
   running) while disconnected;
 * TaskRegistry.start_task (replace, never double), remove_task, stop, connection_state_changed_cb
   over two registered tasks and every connection state.
E6 task-slot rule: the only `create_task` for the slot is in `_start`, whose callers cancel first.
Does not decide scheduling order.
"""

from __future__ import annotations

import ast
from itertools import product

from ..absmachine import AbsMachine, AList, Obj, Outcome, Raise, UNKNOWN, class_isinstance
from ..astx import attr_writes, call_name, call_sites, calls, method_name
from ..cfg import CFG
from ..exctable import ExcTable
from ..explore import Explorer
from ..loader import AnalysisError, EnumMember, Repo
from ..report import Check, canon

M = "xknx.core.task_registry"


def _run(repo, fi, call_model, env, hook=None):
    cfg = CFG(fi.node)
    am = AbsMachine(cfg, ExcTable(repo), call_model, hook)
    am.isinstance_fn = class_isinstance(repo)
    return cfg, Explorer(cfg, repo, am.step).run(cfg.entry, [], env)


def run(chk: Check, repo: Repo) -> None:
    T = lambda q: repo.func(M, f"Task.{q}")
    R = lambda q: repo.func(M, f"TaskRegistry.{q}")

    def self_calls(c: ast.Call, env):
        n = call_name(c)
        if n == "self._task.cancel":
            return [Outcome("CANCEL_ASYNCIO_TASK", None)]
        if n == "asyncio.create_task":
            return [Outcome("CREATE_TASK", Obj("asyncio.Task", "new"))]
        if n in ("self.cancel", "self.restart", "self._start"):
            return [Outcome(n.split(".")[1].upper(), None)]
        if n.startswith("logger."):
            return [Outcome(None, None)]
        return None

    # Task.cancel
    f = T("cancel"); chk.unit(f)
    for running in (False, True):
        cfg, paths = _run(repo, f, self_calls, {"self._task": Obj("asyncio.Task", "old") if running else None})
        got = {(tuple(p.env.get("trace", ())), repr(p.env.get("self._task")), p.end_kind) for p in paths}
        want = {((("CANCEL_ASYNCIO_TASK",) if running else ()), "None", "exit")}
        chk.ob("task-cancel", f.site(), got == want, f"Task.cancel running={running}: {sorted(got)}; reference {sorted(want)}", key=f"cancel|{running}")
    # Task._start
    f = T("_start"); chk.unit(f)
    from itertools import product as _product
    for registered, restart_opt, connected in _product((False, True), (False, True), (False, True)):
        def start_calls(c: ast.Call, env, connected=connected):
            if call_name(c).endswith("connection_manager.connected.is_set"):
                return [Outcome(None, connected)]
            return self_calls(c, env)
        cfg, paths = _run(repo, f, start_calls, {"self.xknx": Obj("XKNX", "x") if registered else None, "self._task": None, "self.restart_after_reconnect": restart_opt})
        got = {(tuple(t for t in p.env.get("trace", ()) if not t.startswith("raise:")), p.end_kind) for p in paths}
        # a task that restarts after reconnection is not started while disconnected (reconnected() starts it then)
        want = {((), "raise")} if not registered else ({((), "exit")} if (restart_opt and not connected) else {(("CREATE_TASK",), "exit")})
        chk.ob("task-start", f.site(), got == want, f"Task._start registered={registered} restart_after_reconnect={restart_opt} connected={connected}: {sorted(got)}; reference {sorted(want)}", key=f"start|{registered}|{restart_opt}|{connected}")
    # ... with an eager task factory (Home Assistant's loop) `create_task` runs the target's first step before it returns:
    # that step may remove this task (flag cleared) or start it again (slot filled by the inner start).  The instance just
    # created is then not the current one - it is cancelled and the slot is left as the first step put it.
    for eager in ("no", "removed", "restarted", "disconnected", "disconnected-but-not-restarting"):
        inner = Obj("asyncio.Task", "inner")
        def eager_calls(c: ast.Call, env, eager=eager):
            if call_name(c).endswith("connection_manager.connected.is_set"):
                # connected when _start() looked first; after the eager first step the connection may be gone
                return [Outcome(None, not (eager.startswith("disconnected") and env.get("#created")))]
            if call_name(c) == "asyncio.create_task":
                env["#created"] = True
                if eager == "removed":
                    env["self.xknx"] = None
                elif eager == "restarted":
                    env["self._task"] = inner
                return [Outcome("CREATE_TASK", Obj("asyncio.Task", "new"))]
            if isinstance(c.func, ast.Attribute) and c.func.attr == "cancel" and isinstance(c.func.value, ast.Name):
                tgt = env.get(c.func.value.id)
                if isinstance(tgt, Obj) and tgt.cls == "asyncio.Task":
                    return [Outcome(f"CANCEL({tgt.tag})", None)]
            return self_calls(c, env)
        cfg, paths = _run(repo, f, eager_calls, {"self.xknx": Obj("XKNX", "x"), "self._task": None, "self.restart_after_reconnect": eager == "disconnected"})
        got = {(tuple(t for t in p.env.get("trace", ()) if not t.startswith("raise:")), repr(p.env.get("self._task")), p.end_kind) for p in paths}
        new = Obj("asyncio.Task", "new")
        want = {"no": {(("CREATE_TASK",), repr(new), "exit")}, "removed": {(("CREATE_TASK", "CANCEL(new)"), "None", "exit")}, "restarted": {(("CREATE_TASK", "CANCEL(new)"), repr(inner), "exit")},
                # a task that restarts after reconnection must not be left running while disconnected; one that does not, stays
                "disconnected": {(("CREATE_TASK", "CANCEL(new)"), "None", "exit")}, "disconnected-but-not-restarting": {(("CREATE_TASK",), repr(new), "exit")}}[eager]
        chk.ob("task-start-eager", f.site(), got == want, f"Task._start, first step executed inside create_task: {eager}: (events, slot, end) = {sorted(got)}; reference {sorted(want)}", key=f"start-eager|{eager}")
    # Task.restart = cancel then start
    f = T("restart"); chk.unit(f)
    cfg, paths = _run(repo, f, self_calls, {})
    got = {tuple(p.env.get("trace", ())) for p in paths}
    chk.ob("task-restart", f.site(), got == {("CANCEL", "_START")}, f"Task.restart: {sorted(got)}; reference cancel() then _start()", key="restart")
    # connection_lost / reconnected
    for name, want_fn in (("connection_lost", lambda rar, run_: ("CANCEL",) if rar and run_ else ()), ("reconnected", lambda rar, run_: ("RESTART",) if rar else ())):
        f = T(name); chk.unit(f)
        for rar, running in product((False, True), repeat=2):
            cfg, paths = _run(repo, f, self_calls, {"self.restart_after_reconnect": rar, "self._task": Obj("asyncio.Task", "old") if running else None})
            got = {tuple(p.env.get("trace", ())) for p in paths}
            chk.ob(f"task-{name}", f.site(), got == {want_fn(rar, running)}, f"Task.{name} restart_after_reconnect={rar} running={running}: {sorted(got)}; reference {want_fn(rar, running)}", key=f"{name}|{rar}|{running}")
    # slot discipline
    ws = [w for w in attr_writes(repo, "_task", include_mutators=False) if w.func.cls is not None and w.func.cls.name == "Task"]
    for w in ws:
        ok = w.func.name in ("__init__", "_start", "cancel")
        chk.ob("task-slot-writer", w.func.site(w.stmt), ok, f"`{canon(w.stmt)[:70]}` in {w.func.qualname}", key=f"slot|{w.func.name}")
    sites = [(f_, c) for f_, c in call_sites(repo, "_start") if f_.module.name == M]
    for f_, c in sites:
        chk.ob("start-callers-cancel-first", f_.site(c), f_.qualname in ("Task.restart", "TaskRegistry.start_task"), f"_start() called from {f_.qualname} (allowed: Task.restart after cancel(), TaskRegistry.start_task after remove_task())", key=f"startcaller|{f_.qualname}")
    chk.floor("_start call sites", len(sites), 2)
    # _start_internal: restart-after-reconnect task does not keep running while disconnected
    f = T("_start_internal"); chk.unit(f)
    def si_calls(c, env):
        n = call_name(c)
        if n == "asyncio.sleep":
            return [Outcome(f"SLEEP({ast.unparse(c.args[0])})", None)]
        if n.endswith("connected.is_set"):
            return [Outcome(None, env.get("#connected"))]
        if n.endswith("connected.wait"):
            return [Outcome("WAIT_CONNECTED", None)]
        if n == "self.target":
            return [Outcome("TARGET", None)]
        if n == "asyncio.iscoroutine":
            return [Outcome(None, False)]
        return None
    for connected, rar, wfc in product((False, True), repeat=3):
        cfg, paths = _run(repo, f, si_calls, {"#connected": connected, "self.restart_after_reconnect": rar, "self.wait_for_connection": wfc, "self.wait_before_start": 0, "self.repeat_after": None, "self.xknx": Obj("XKNX", "x")})
        got = {tuple(p.env.get("trace", ())) for p in paths}
        if wfc and not connected:
            want = {()} if rar else {("WAIT_CONNECTED", "TARGET")}
        else:
            want = {("TARGET",)}
        chk.ob("start-internal", f.site(), got == want, f"_start_internal connected={connected} restart_after_reconnect={rar} wait_for_connection={wfc}: {sorted(got)}; reference {sorted(want)}", key=f"si|{connected}|{rar}|{wfc}")

    # registry
    t1, t2 = Obj("Task", "t1"), Obj("Task", "t2")
    def reg_calls(c, env):
        n = call_name(c)
        if isinstance(c.func, ast.Attribute) and isinstance(c.func.value, ast.Name):
            recv = env.get(c.func.value.id)
            if isinstance(recv, Obj) and recv.cls == "Task":
                return [Outcome(f"{c.func.attr}:{recv.tag}", None)]
        if n == "self.remove_task":
            return [Outcome("REMOVE_TASK", None)]
        return None
    # start_task, decided on what it does rather than on how it is written: for a task that is registered (member of
    # self.tasks, flag set) and one that is not (neither), the running instance is cancelled before the new one starts,
    # and afterwards the task is a member with its flag set.  remove_task() / Task.restart() are expanded by their own
    # tables above (cancel + unregister / cancel + _start(), the latter raising for a task without flag); local aliases
    # of the parameter are substituted first.  The two mixed states (flag without membership and the reverse) do not
    # occur: the flag is written only by start_task / remove_task / stop next to the membership change (census below).
    f = R("start_task"); chk.unit(f)
    import copy
    fnode = copy.deepcopy(f.node)
    params = {a_.arg for a_ in fnode.args.args}
    alias = {}
    for st_ in ast.walk(fnode):
        if isinstance(st_, ast.Assign) and len(st_.targets) == 1 and isinstance(st_.targets[0], ast.Name) and isinstance(st_.value, ast.Name) and st_.value.id in params:
            alias[st_.targets[0].id] = st_.value.id
    for nm in list(alias):
        if sum(1 for x in ast.walk(fnode) if isinstance(x, ast.Name) and x.id == nm and isinstance(x.ctx, ast.Store)) != 1:
            del alias[nm]
    class _Sub(ast.NodeTransformer):
        def visit_Name(self, node):
            if node.id in alias and isinstance(node.ctx, ast.Load):
                return ast.copy_location(ast.Name(id=alias[node.id], ctx=ast.Load()), node)
            return node
    fnode = ast.fix_missing_locations(_Sub().visit(fnode))
    xobj = Obj("XKNX", "x")
    pname = [a_.arg for a_ in fnode.args.args][1]
    def start_calls(c, env):
        n = call_name(c)
        if n == "self.remove_task":
            arg = env.get(c.args[0].id) if c.args and isinstance(c.args[0], ast.Name) else None
            tasks = env.get("self.tasks")
            if isinstance(arg, Obj) and isinstance(tasks, AList) and arg in tasks.items:
                env["self.tasks"] = AList(tuple(x for x in tasks.items if x is not arg))
                env[f"{c.args[0].id}.xknx"] = None
                return [Outcome(f"cancel:{arg.tag}", None)]
            return [Outcome(None, None)]
        if isinstance(c.func, ast.Attribute) and isinstance(c.func.value, ast.Name):
            recv = env.get(c.func.value.id)
            if isinstance(recv, Obj) and recv.cls == "Task":
                flag = env.get(f"{c.func.value.id}.xknx")
                if c.func.attr in ("restart", "_start") and flag is None:
                    return [Outcome("unregistered-start", Raise("RuntimeError"))]
                if c.func.attr == "restart":
                    env["trace"] = tuple(env.get("trace", ())) + (f"cancel:{recv.tag}",)
                    return [Outcome(f"_start:{recv.tag}", None)]
                return [Outcome(f"{c.func.attr}:{recv.tag}", None)]
        return None
    for registered in (False, True):
        env0 = {pname: t1, "self.tasks": AList((t2, t1) if registered else (t2,)), "self.xknx": xobj, f"{pname}.xknx": xobj if registered else None}
        scfg = CFG(fnode)
        am = AbsMachine(scfg, ExcTable(repo), start_calls, None)
        am.isinstance_fn = class_isinstance(repo)
        paths = Explorer(scfg, repo, am.step).run(scfg.entry, [], env0)
        got = set()
        for p in paths:
            tasks = p.env.get("self.tasks")
            member = isinstance(tasks, AList) and sum(1 for x in tasks.items if x is t1) == 1 and any(x is t2 for x in tasks.items)
            got.add((tuple(p.env.get("trace", ())), member, p.env.get(f"{pname}.xknx") is xobj, p.end_kind))
        want = {((("cancel:t1",) if registered else ()) + ("_start:t1",), True, True, "exit")}
        chk.ob("registry-start-task", f.site(), got == want, f"start_task registered={registered}: (events, member of tasks, flag set, end) = {sorted(got, key=repr)}; reference {sorted(want, key=repr)}", key=f"reg-start|{registered}")
    fw = [w for w in attr_writes(repo, "xknx", include_mutators=False) if w.func.cls is not None and w.func.cls.name in ("Task", "TaskRegistry") and isinstance(w.stmt, ast.Assign) and not ast.unparse(w.stmt.targets[0]).startswith("self.")]
    okf = {w.func.qualname for w in fw} <= {"TaskRegistry.start_task", "TaskRegistry.remove_task", "TaskRegistry.stop"}
    foreign = [w for w in attr_writes(repo, "xknx", include_mutators=False) if w.func.module.name != M and isinstance(w.stmt, ast.Assign) and "task" in ast.unparse(w.stmt.targets[0]).lower().split(".xknx")[0].split(".")[-1]]
    chk.ob("registration-flag-writers", f.site(), okf and not foreign, f"Task.xknx is written by {sorted({w.func.qualname for w in fw})} (reference: start_task, remove_task, stop) and by no other module ({[w.func.qualname for w in foreign]})", key="flag-writers")
    f = R("remove_task"); chk.unit(f)
    for present in (False, True):
        cfg, paths = _run(repo, f, reg_calls, {"task": t1, "self.tasks": AList((t2, t1) if present else (t2,))})
        got = {(tuple(p.env.get("trace", ())), repr(p.env.get("self.tasks")), p.end_kind) for p in paths}
        want = {(("cancel:t1",), "[<Task:t2>]", "exit")} if present else {((), "[<Task:t2>]", "exit")}
        chk.ob("registry-remove-task", f.site(), got == want, f"remove_task registered={present}: {sorted(got)}; reference {sorted(want)}", key=f"reg-remove|{present}")
    f = R("stop"); chk.unit(f)
    cfg, paths = _run(repo, f, reg_calls, {"self.tasks": AList((t1, t2))})
    got = {(tuple(t for t in p.env.get("trace", ()) if t.startswith("cancel:")), repr(p.env.get("self.tasks"))) for p in paths}
    chk.ob("registry-stop", f.site(), got == {(("cancel:t1", "cancel:t2"), "[]")}, f"stop: {sorted(got)}; reference cancel every task, registry empty", key="reg-stop")
    # the two views of "registered" agree: wherever the registry cancels a task it drops (remove_task, stop) it resets the
    # flag Task._start() tests - a dropped task that kept it can be restart()ed outside the registry, where neither
    # remove_task() nor stop() reach it (and start_task() starts a second instance next to it)
    n_drop = 0
    for name in ("remove_task", "stop"):
        f_ = R(name)
        for blk in [x for x in ast.walk(f_.node) if hasattr(x, "body") and isinstance(getattr(x, "body"), list)]:
            for i, st in enumerate(blk.body):
                if isinstance(st, ast.Expr) and isinstance(st.value, ast.Call) and isinstance(st.value.func, ast.Attribute) and st.value.func.attr == "cancel":
                    recv = ast.unparse(st.value.func.value)
                    n_drop += 1
                    ok = any(isinstance(z, ast.Assign) and len(z.targets) == 1 and ast.unparse(z.targets[0]) == f"{recv}.xknx" and isinstance(z.value, ast.Constant) and z.value.value is None for z in blk.body[i + 1:])
                    chk.ob("dropped-task-loses-its-registration-flag", f_.site(st), ok, f"TaskRegistry.{name}: `{recv}.cancel()` " + (f"is followed by `{recv}.xknx = None`" if ok else "drops the task but leaves `.xknx` set: Task.restart() starts it again outside the registry and nothing stops that instance"), key=f"drop-flag|{name}")
    chk.count("registry drop sites", n_drop)
    chk.ob("registry-drop-sites", R("stop").site(), n_drop >= 2, f"{n_drop} cancel-and-drop sites in TaskRegistry.remove_task/stop (2 confirmed by reading)", key="drop-sites")
    # XKNX.stop(): the telegrams it still processes (join(), the queue's own drain) reach the devices, which start tasks
    # (reset_after, cooldown, context timeouts) - the registry is stopped and the device tasks are removed behind the last
    # statement that processes telegrams, on every path that returns
    xs = repo.func("xknx.xknx", "XKNX.stop")
    chk.unit(xs)
    xcfg = CFG(xs.node)
    def at(nm: str) -> list[int]:
        return [n.id for n in xcfg.nodes if n.ast is not None and n.kind == "stmt" and any(call_name(c) == nm for c in calls(n.ast))]
    drains = at("self.join") + at("self.telegram_queue.stop")
    for what, nm in (("the task registry is stopped", "self.task_registry.stop"), ("the device tasks are removed", "self.devices.async_remove_device_tasks")):
        sweep = at(nm)
        ok = bool(drains) and bool(sweep) and all(xcfg.all_paths_hit(d, sweep, ends=[xcfg.exit]) for d in drains)
        chk.ob("no-task-survives-the-drained-telegrams", xs.site(), ok, f"XKNX.stop(): {what} behind the last processed telegram" if ok else f"XKNX.stop(): some path returns without `{nm}()` after join()/telegram_queue.stop() - a telegram processed there starts a device task (reset_after, cooldown, ...) that stays registered and running after stop() returned", key=f"xknx-stop|{nm}")
    f = R("connection_state_changed_cb"); chk.unit(f)
    states = repo.enum_members(repo.cls("xknx.core.connection_state", "XknxConnectionState"))
    def hook(e, env):
        if isinstance(e, ast.Attribute):
            v = repo.fold(e, f.module, None)
            if isinstance(v, EnumMember):
                return v
        return UNKNOWN
    xo = Obj("XKNX", "x")
    r1, r2, u3 = Obj("Task", "t1", (("xknx", xo),)), Obj("Task", "t2", (("xknx", xo),)), Obj("Task", "t3", (("xknx", None),))
    for st in states:
        # t3 stands for a task a target started eagerly has removed during this very dispatch (flag cleared): it is passed over
        cfg, paths = _run(repo, f, reg_calls, {"state": EnumMember("xknx.core.connection_state:XknxConnectionState", st), "self.tasks": AList((r1, u3, r2))}, hook)
        got = {tuple(p.env.get("trace", ())) for p in paths}
        want = {("reconnected:t1", "reconnected:t2")} if st == "CONNECTED" else {("connection_lost:t1", "connection_lost:t2")}
        chk.ob("registry-connection-state", f.site(), got == want, f"state={st}: {sorted(got)}; reference {sorted(want)}", key=f"reg-state|{st}")
    # the targets a reconnection starts may run at once (eager task factory - Home Assistant's loop) and register or remove
    # tasks: the dispatch walks a snapshot; and start() registers the connection callback once however often it is called
    from .common_rules import dispatch_iterates_a_snapshot
    dispatch_iterates_a_snapshot(chk, repo, f, "tasks", "Task.reconnected / connection_lost", "snapshot|registry-tasks")
    sf = R("start"); chk.unit(sf)
    scfg_ = CFG(sf.node)
    regs = [n for n in scfg_.nodes if n.ast is not None and n.kind == "stmt" and any(call_name(c).endswith(".register_connection_state_changed_cb") for c in calls(n.ast))]
    unregs = [n for n in scfg_.nodes if n.ast is not None and n.kind == "stmt" and any(call_name(c).endswith(".unregister_connection_state_changed_cb") for c in calls(n.ast))]
    once = len(regs) == 1 and (any(scfg_.dominates(u.id, regs[0].id) for u in unregs) or any("connection_state_changed_cb" in a_ and " not in " in a_ and v_ for a_, v_ in scfg_.must_facts()[regs[0].id]))
    chk.ob("connection-callback-registered-once", sf.site(), once, "TaskRegistry.start() registers its connection callback once (unregisters first / tests membership)" if once else "TaskRegistry.start() appends its connection callback on every call: after a failed and retried XKNX.start() every reconnection runs reconnected() twice per task - with an eagerly started target it runs twice", key="registry-start|once")
    chk.count("connection_states", len(states))
    # a task outside the registry is not started: `Task.restart()` (cancel, then `_start()`, which raises RuntimeError for an
    # unregistered task) is called outside xknx.core.task_registry only where `<task>.xknx is not None` holds - a device
    # whose tasks were removed (XKNX.stop() removes them before it drains the queue) would raise out of `process()`, end
    # the dispatch of that telegram for the devices behind it, and leave a task running that nothing stops
    n_r = 0
    for f_ in repo.all_functions():
        if f_.module.name == M:
            continue
        cfg_ = None
        for c in calls(f_.node):
            if not (isinstance(c.func, ast.Attribute) and c.func.attr in ("restart", "_start") and not c.args):
                continue
            recv = ast.unparse(c.func.value)
            if "task" not in recv.lower():
                continue
            n_r += 1
            if cfg_ is None:
                cfg_ = CFG(f_.node)
                mf_ = cfg_.must_facts()
            node = next((n for n in cfg_.nodes if n.ast is not None and n.kind in ("stmt", "test") and any(y is c for y in ast.walk(n.ast))), None)
            fs = mf_.get(node.id, frozenset()) if node is not None else frozenset()
            ok = (f"{recv}.xknx is not None", True) in fs or (f"{recv}.xknx is None", False) in fs or (f"{recv}.xknx", True) in fs
            chk.ob("unregistered-task-is-never-started", f_.site(c), ok, f"{f_.qualname}: `{ast.unparse(c)}` " + ("only where the task is registered (`.xknx is not None`)" if ok else "without testing that the task is registered - after its tasks were removed the call raises RuntimeError('Task must be registered before start().') in the middle of a dispatch"), key=f"restart-guard|{f_.qualname}|{recv}")
    chk.count("direct task restarts outside the registry", n_r)
    # "not running while disconnected" rests on the `connected` flag Task._start / _start_internal test: it is cleared on
    # every change to a state other than CONNECTED (C25's state-change cells, shared)
    from .c25 import manager as connection_manager_cells
    connection_manager_cells(chk, repo)
    chk.rule("E7 decision tables (abstract path enumeration) of Task.cancel/_start/restart/connection_lost/reconnected/_start_internal and TaskRegistry.start_task/remove_task/stop/connection_state_changed_cb; E6 task-slot writer census")
    chk.assume("connection_state_changed_cb is invoked once per real state change (C25)")
