"""C11 — any value accepted for sending becomes a wire-valid telegram.

 (a) payload invariants: DPTArray.__init__ / DPTBinary.__init__ leave every integer element in 0..255 / the value in
     0..63 on every normal exit (CFG must-facts at the exit carry the negated range guard), and `.value` of either
     class has no writer outside its constructor (ownership census).
 (b) E1: with (a), GroupValueWrite.to_knx / GroupValueResponse.to_knx can raise only the explicit empty-array refusal;
     `bytes(self.value.value)` cannot fail.
 (c) the empty-array refusal is unreachable from the send entry points: every DPTArray built from a caller's value
     outside the decode paths is non-empty — a single integer, `to_bytes(length=payload_length)` under a non-zero
     length guard, or the raw fallback after its emptiness test; every DPT with an array payload declares
     payload_length >= 1.
 (d) E1: the payload builders on the send paths — RemoteValue.to_knx of every remote value class (MRO-resolved),
     _parse_payload, RemoteValueRaw.to_knx — raise only ConversionError (rejected at the call);
 (e) ordering: in RemoteValue.set / respond and group_value_write / group_value_response the payload is built before
     the telegram is queued, outside any try that would swallow the rejection, so a rejected value queues nothing.
"""

from __future__ import annotations

import ast

from ..astx import attr_writes, call_name, calls, inline_locals, walk_local
from ..cfg import CFG
from ..loader import NOFOLD, AnalysisError, Repo
from ..report import Check, canon
from ..mayraise import UNTYPED
from .e1_common import check_entry, engine, finish

PM = "xknx.dpt.payload"


def ctor_invariant(chk: Check, repo: Repo) -> bool:
    ok_all = True
    for cname, want in (("DPTArray", ("any(", "0 <= octet <= 255", "not")), ("DPTBinary", ("0 <= value <= DPTBinary.APCI_BITMASK",))):
        ini = repo.func(PM, f"{cname}.__init__")
        chk.unit(ini)
        cfg = CFG(ini.node)
        mf = cfg.must_facts()
        facts = mf.get(cfg.exit, frozenset())
        if cname == "DPTBinary":
            ok = any(val and atom.replace(" ", "") in ("0<=value<=DPTBinary.APCI_BITMASK", "0<=value<=63") for atom, val in facts)
        else:
            ok = False
            for atom, val in facts:
                if val is False and atom.startswith("any(") and "isinstance" in atom:
                    try:
                        e = ast.parse(atom, mode="eval").body
                    except SyntaxError:
                        continue
                    g = e.args[0] if isinstance(e, ast.Call) and e.args and isinstance(e.args[0], ast.GeneratorExp) else None
                    if g is None or ast.unparse(g.generators[0].iter) != "self.value":
                        continue
                    tv = ast.unparse(g.generators[0].target)
                    el = g.elt
                    if isinstance(el, ast.BoolOp) and isinstance(el.op, ast.And) and len(el.values) == 2 and ast.unparse(el.values[0]) == f"isinstance({tv}, int)" \
                            and isinstance(el.values[1], ast.UnaryOp) and isinstance(el.values[1].op, ast.Not) and ast.unparse(el.values[1].operand) in (f"0 <= {tv} <= 255",):
                        ok = True
        # the stored value must not be rewritten after the guard
        ws = [w for w in attr_writes(repo, "value", include_mutators=True) if w.func.module.name == PM and w.func.cls is not None and w.func.cls.name == cname and w.func.name != "__init__"]
        foreign = []
        for w in attr_writes(repo, "value", include_mutators=False):
            if w.func.module.name == PM:
                continue
            # a write `x.value = ..` where x is typed as a payload class
            if w.receiver != "self":
                src = ast.unparse(w.node)
                foreign.append(f"{w.func.qualname}: {src}") if ("payload" in src or "dpt" in src.lower()) else None
        ok_all = ok_all and ok and not ws and not foreign
        chk.ob("payload-constructor-establishes-octet-range", ini.site(), ok, f"{cname}.__init__: the normal exit is reached only with {'every integer element in 0..255' if cname == 'DPTArray' else 'the value in 0..63'} (negated guard in the exit's must-facts: {ok})", key=f"ctor|{cname}")
        chk.ob("payload-value-has-one-writer", ini.site(), not ws and not foreign, f"{cname}.value writers outside __init__: {[w.func.qualname for w in ws] + foreign}", key=f"writers|{cname}")
    return ok_all


def construction_sites(chk: Check, repo: Repo) -> None:
    n = 0
    for f in repo.all_functions():
        if f.module.name.startswith("xknx.dpt"):
            continue
        for c in calls(f.node):
            if call_name(c) != "DPTArray":
                continue
            n += 1
            a = c.args[0] if c.args else None
            txt = ast.unparse(a) if a is not None else ""
            why = None
            if f.module.name == "xknx.telegram.apci" and f.name == "from_knx":
                why = "decode path (octets of a received APDU)"
            elif isinstance(a, ast.Call) and isinstance(a.func, ast.Attribute) and a.func.attr == "to_bytes":
                ln = next((k.value for k in a.keywords if k.arg == "length"), a.args[0] if a.args else None)
                cfg = CFG(f.node)
                mf = cfg.must_facts()
                node = next((x for x in cfg.nodes if x.ast is not None and any(y is c for y in ast.walk(x.ast))), None)
                lt = ast.unparse(ln) if ln is not None else "?"
                if node is not None and any((atom == f"{lt} == 0" and val is False) or (atom == f"{lt} > 0" and val) or (atom == lt and val) for atom, val in mf[node.id]):
                    why = f"`{txt}` with {lt} != 0 on this path: at least one octet"
            elif isinstance(a, ast.Name):
                # single integer -> one octet; or a value tested non-empty before being returned
                defs = [s for s in walk_local(f.node) if isinstance(s, ast.Assign) and isinstance(s.targets[0], ast.Name) and s.targets[0].id == a.id]
                ann = next((x.annotation for x in f.node.args.args if x.arg == a.id), None)
                par = {}
                for p in ast.walk(f.node):
                    for ch in ast.iter_child_nodes(p):
                        par[ch] = p
                tgt = par.get(c)
                while tgt is not None and not isinstance(tgt, (ast.Assign, ast.Return)):
                    tgt = par.get(tgt)
                if len(defs) == 1 and isinstance(defs[0].value, ast.Call) and call_name(defs[0].value).endswith("_calc_to_knx"):
                    why = "a single integer: one octet"
                elif isinstance(tgt, ast.Assign) and isinstance(tgt.targets[0], ast.Name):
                    pv = tgt.targets[0].id
                    guard = any(isinstance(s, ast.If) and ast.unparse(s.test) == f"not {pv}.value" and any(isinstance(x, ast.Raise) for x in s.body) for s in walk_local(f.node))
                    if guard:
                        why = f"`if not {pv}.value: raise` follows the construction"
                if why is None and f.module.name.startswith("xknx.mcp") and "decode" in f.name:
                    why = "decode tool (nothing is sent)"
            chk.ob("array-payload-from-a-caller-value-is-non-empty", f.site(c), why is not None, f"{f.qualname}: `DPTArray({txt})` — {why or 'may be empty: the telegram is queued and refused only when it is serialised'}", key=f"site|{f.qualname}|{canon(c)[:60]}")
    chk.floor("DPTArray construction sites outside xknx.dpt", n, 4)
    base = repo.cls("xknx.dpt.dpt", "DPTBase")
    bad = []
    k = 0
    for c in repo.subclasses(base, strict=True):
        pt = repo.class_attr_expr(c, "payload_type")
        pl = repo.const(c, "payload_length")
        if pt is not None and ast.unparse(pt[0]) == "DPTArray" and isinstance(pl, int):
            k += 1
            if pl < 1:
                bad.append(c.name)
    chk.ob("array-datapoints-declare-a-positive-length", "xknx/dpt", not bad and k > 100, f"{k} datapoint types with an array payload, payload_length < 1: {bad}", key="dpt-lengths")


def scaling_rejects_out_of_range(chk: Check, repo: Repo) -> None:
    """RemoteValueScaling: a value more than two wire steps outside the configured range maps to a raw number outside
    0..255, which the payload constructor refuses (interval abstract interpretation of _calc_to_knx per range cell)."""
    from ..intervals import INF, IntervalEval, Iv, NotInFragment
    cls = repo.cls("xknx.remote_value.remote_value_scaling", "RemoteValueScaling")
    f = cls.methods["_calc_to_knx"]
    chk.unit(f)
    names = [a.arg for a in f.node.args.args]
    tk = cls.methods["to_knx"]
    wraps = [c for c in calls(tk.node) if call_name(c) == "DPTArray" and len(c.args) == 1 and isinstance(c.args[0], ast.Name)]
    chk.ob("scaling-result-goes-through-the-checked-constructor", tk.site(), len(wraps) == 1, "RemoteValueScaling.to_knx hands the computed number to DPTArray (which refuses non-octets)", key="scaling|ctor")
    for a, b in ((0, 100), (100, 0), (0, 1000), (20, 80), (0, 255)):
        lo, hi = min(a, b), max(a, b)
        margin = 2 * (hi - lo) / 255
        for side, iv in (("above", Iv(hi + margin, INF)), ("below", Iv(-INF, lo - margin))):
            ie = IntervalEval(repo, f, cls)
            try:
                outs = ie.run({names[0]: Iv(a, a, True), names[1]: Iv(b, b, True), names[2]: iv})
            except NotInFragment as u:
                raise AnalysisError(f"_calc_to_knx outside the interval fragment: {u}") from u
            ok = bool(outs)
            det = []
            for o in outs:
                if o.kind != "return" or not isinstance(o.detail, Iv):
                    ok = False
                    det.append(f"{o.kind} {o.detail!r}")
                    continue
                r = o.detail
                disjoint = r.lo > 255 or r.hi < 0
                ok = ok and disjoint
                det.append(f"raw in {r!r}")
            chk.ob("scaling-refuses-values-beyond-the-range", f.site(), ok, f"range {a}..{b}, value {side} by more than two wire steps ({iv!r}): {'; '.join(det)}" + ("" if ok else " — overlaps 0..255: an out-of-range value is queued instead of refused"), key=f"scaling|{a}..{b}|{side}")


def ordering(chk: Check, repo: Repo) -> None:
    cases = [("xknx.remote_value.remote_value", "RemoteValue.set", "self.to_knx", "self.send_raw"), ("xknx.remote_value.remote_value", "RemoteValue.respond", "self.to_knx", "self.send_raw"),
             ("xknx.tools.group_communication", "group_value_write", "_parse_payload", "xknx.telegrams.put_nowait"), ("xknx.tools.group_communication", "group_value_response", "_parse_payload", "xknx.telegrams.put_nowait")]
    for mod, q, build, queue in cases:
        f = repo.func(mod, q)
        chk.unit(f)
        cfg = CFG(f.node)
        bn = [n for n in cfg.nodes if n.ast is not None and n.kind == "stmt" and any(isinstance(x, ast.Call) and call_name(x) == build for x in ast.walk(n.ast))]
        qn = [n for n in cfg.nodes if n.ast is not None and n.kind == "stmt" and any(isinstance(x, ast.Call) and call_name(x) == queue for x in ast.walk(n.ast))]
        in_try = any(isinstance(t, ast.Try) and any(any(y is b.ast for y in ast.walk(s)) for s in t.body for b in bn) for t in walk_local(f.node))
        ok = len(bn) == 1 and len(qn) == 1 and cfg.dominates(bn[0].id, qn[0].id) and not in_try
        chk.ob("payload-built-before-queueing", f.site(), ok, f"{q}: `{build}(..)` dominates `{queue}(..)` and is not inside a try ({'ok' if ok else 'NOT established'}) — a rejected value raises before anything is queued", key=f"order|{q}")
    sr = repo.func("xknx.remote_value.remote_value", "RemoteValue.send_raw")
    pn = [c for c in calls(sr.node) if call_name(c) == "self.xknx.telegrams.put_nowait"]
    chk.ob("payload-built-before-queueing", sr.site(), len(pn) == 1, "RemoteValue.send_raw queues exactly one telegram carrying the payload it was given", key="order|send_raw")


SETTER_SCOPE = ("xknx.devices.", "xknx.remote_value.", "xknx.tools.group_communication", "xknx.mcp.tools")


DECODE_SIDE = ("from_knx", "_from_knx", "validate_payload")


def refusal_precedes_queueing(chk: Check, repo: Repo, mr) -> None:
    """`rejected at the call ... and nothing is queued`, for the setters that send more than one telegram: on no path of a
    setter does a call that can still refuse the caller's value (ConversionError may leave it, and it receives something
    derived from the setter's parameters) come after a call that has queued a telegram.  Both facts are read off the
    may-raise engine per call expression: a queueing call is one that `telegrams.put_nowait` can be reached from (its
    QueueFull is the marker), a refusing call one that ConversionError can leave."""
    from ..mayraise import _FuncAnalysis
    n_funcs = n_q = n_pairs = 0
    for f in repo.all_functions():
        if not f.module.name.startswith(SETTER_SCOPE) or f.cls is None and not f.module.name.startswith(("xknx.tools", "xknx.mcp")):
            continue
        # a received telegram is not a value handed over for sending (process / callback paths)
        params = {a.arg for a in f.node.args.posonlyargs + f.node.args.args + f.node.args.kwonlyargs if a.annotation is None or "Telegram" not in ast.unparse(a.annotation)} - {"self", "cls"}
        if f.node.args.vararg:
            params.add(f.node.args.vararg.arg)
        if f.node.args.kwarg:
            params.add(f.node.args.kwarg.arg)
        if not params:
            continue
        # names derived from the parameters (flow-insensitive closure over the assignments and loop targets)
        derived = set(params)
        changed = True
        while changed:
            changed = False
            for n in walk_local(f.node):
                tg, src = None, None
                if isinstance(n, ast.Assign):
                    tg, src = n.targets, n.value
                elif isinstance(n, (ast.AnnAssign, ast.AugAssign, ast.NamedExpr)) and n.value is not None:
                    tg, src = [n.target], n.value
                elif isinstance(n, (ast.For, ast.AsyncFor)):
                    tg, src = [n.target], n.iter
                elif isinstance(n, ast.comprehension):
                    tg, src = [n.target], n.iter
                if src is None or not any(isinstance(x, ast.Name) and x.id in derived for x in ast.walk(src)):
                    continue
                for t in tg:
                    for x in ast.walk(t):
                        if isinstance(x, ast.Name) and x.id not in derived:
                            derived.add(x.id)
                            changed = True
        cfg = CFG(f.node)
        an = None
        qs: list[tuple[int, ast.Call]] = []
        rs: list[tuple[int, ast.Call]] = []
        # a generator expression bound to a local runs where it is consumed, not where it is written: its calls belong
        # to every node that reads the name (a `for` over it converts one element per iteration - between the sends)
        lazy: dict[str, list[ast.Call]] = {}
        for st in walk_local(f.node):
            if isinstance(st, ast.Assign) and len(st.targets) == 1 and isinstance(st.targets[0], ast.Name) and isinstance(st.value, ast.GeneratorExp):
                lazy.setdefault(st.targets[0].id, []).extend(c for c in ast.walk(st.value) if isinstance(c, ast.Call))
        lazy_ids = {id(c) for v in lazy.values() for c in v}
        for n in cfg.nodes:
            if n.ast is None or n.kind not in ("stmt", "test", "for", "with"):
                continue
            roots = [n.ast.iter] if n.kind == "for" else ([i.context_expr for i in n.ast.items] if n.kind == "with" else [n.ast])
            cs = []
            stack = list(roots)
            while stack:
                x = stack.pop()
                if isinstance(x, (ast.FunctionDef, ast.AsyncFunctionDef, ast.Lambda, ast.ClassDef)):
                    continue
                if isinstance(x, ast.Call) and id(x) not in lazy_ids:
                    cs.append(x)
                if isinstance(x, ast.Name) and isinstance(x.ctx, ast.Load) and x.id in lazy:
                    cs.extend(lazy[x.id])
                stack.extend(ast.iter_child_nodes(x))
            if not cs:
                continue
            # a decoding call (from_knx of an answer / of a payload) refuses a received payload, not the caller's value:
            # it is transparent - its arguments are looked at on their own
            decoding = {id(c) for c in cs if isinstance(c.func, ast.Attribute) and c.func.attr in DECODE_SIDE}
            inner = {id(y) for c in cs if id(c) not in decoding for a in list(c.args) + [k.value for k in c.keywords] for y in ast.walk(a) if isinstance(y, ast.Call)}
            for c in cs:
                if id(c) in inner or id(c) in decoding:
                    continue  # an argument of an outer call: covered by the outer call's escapes
                if an is None:
                    an = _FuncAnalysis(mr, f, f.cls, {})
                es = an.call(c)
                excs = {e.exc for e in es}
                if "QueueFull" in excs:
                    qs.append((n.id, c))
                caught = any(any(h.type is None or any(nm in ast.unparse(h.type) for nm in ("ConversionError", "XKNXException", "Exception")) for h in t.handlers) for t in n.tries if isinstance(t, ast.Try))
                takes_value = any(isinstance(x, ast.Name) and x.id in derived for a in list(c.args) + [k.value for k in c.keywords] for x in ast.walk(a))
                # a refusal raised while *decoding* (from_knx of an answer that was read) concerns a received payload
                refusing = [e for e in es if mr.is_sub(e.exc, "ConversionError") and e.func.rsplit(".", 1)[-1] not in DECODE_SIDE]
                if takes_value and not caught and refusing:
                    rs.append((n.id, c))
        if not qs:
            continue
        n_funcs += 1
        n_q += len(qs)
        chk.unit(f)
        for qn, q in qs:
            after = cfg.reachable([qn], include_start=False, edge_ok=lambda s_, t_, lab, qn=qn: not (s_ == qn and lab == "exc"))
            for rn, r in rs:
                if rn in after:
                    n_pairs += 1
                    chk.ob("refusal-precedes-queueing", f.site(r), False, f"{f.qualname}: `{canon(r)[:70]}` can still refuse the caller's value (ConversionError) after `{canon(q)[:70]}` has queued a telegram - the call fails and a part of it is sent", key=f"partial|{f.qualname}|{an.ktext(q)[:60]}|{an.ktext(r)[:60]}")
    chk.ob("refusal-precedes-queueing", "xknx/devices", True, f"{n_funcs} setters with {n_q} queueing calls examined; {n_pairs} queueing call(s) followed by a call that can still refuse the value (each reported on its own)", key="partial|summary")
    chk.floor("setters that queue telegrams", n_funcs, 40)


def configured_length_fits_a_frame(chk: Check, repo: Repo) -> None:
    """A payload whose size comes from the object's configuration rather than from the value (`int.to_bytes(length=
    self.<attr>)` in a remote value's to_knx) is built only where that length is known to fit a frame: a comparison that
    bounds it by at most MAX_NPDU_LENGTH - 1 (APCI octet + payload <= 254) and from below by 0 holds at the construction.
    (Payloads sized by their DPT class are bounded by the class constant; raw lists of the helpers by _parse_payload.)"""
    limit = repo.module_const("xknx.cemi.const", "MAX_NPDU_LENGTH")
    n_sites = 0
    for f in repo.all_functions():
        if not f.module.name.startswith("xknx.remote_value") or f.name != "to_knx":
            continue
        sites = [c for c in calls(f.node) if isinstance(c.func, ast.Attribute) and c.func.attr == "to_bytes" and any(k.arg == "length" and ast.unparse(k.value).startswith("self.") for k in c.keywords)]
        if not sites:
            continue
        cfg = CFG(f.node)
        mf = cfg.must_facts()
        for c in sites:
            n_sites += 1
            attr = next(ast.unparse(k.value) for k in c.keywords if k.arg == "length")
            node = next((n for n in cfg.nodes if n.ast is not None and n.kind == "stmt" and any(y is c for y in ast.walk(n.ast))), None)
            upper = lower = None
            for t, v in (mf[node.id] if node is not None else ()):
                e = ast.parse(t, mode="eval").body
                if not isinstance(e, ast.Compare):
                    continue
                terms = [e.left] + list(e.comparators)
                if len(e.ops) > 1 and not v:
                    continue  # the negation of a chain says nothing about one link
                for i, op in enumerate(e.ops):
                    l_, r_ = terms[i], terms[i + 1]
                    for x_, y_, flip in ((l_, r_, False), (r_, l_, True)):
                        if ast.unparse(x_) != attr:
                            continue
                        b_ = repo.fold(y_, f.module, f.cls)
                        if not isinstance(b_, int):
                            continue
                        o = type(op)
                        if flip:
                            o = {ast.Lt: ast.Gt, ast.Gt: ast.Lt, ast.LtE: ast.GtE, ast.GtE: ast.LtE}.get(o, o)
                        if not v:
                            o = {ast.Lt: ast.GtE, ast.Gt: ast.LtE, ast.LtE: ast.Gt, ast.GtE: ast.Lt}.get(o)
                        if o is ast.Lt: upper = min(upper, b_ - 1) if upper is not None else b_ - 1
                        elif o is ast.LtE: upper = min(upper, b_) if upper is not None else b_
                        elif o is ast.Gt: lower = max(lower, b_ + 1) if lower is not None else b_ + 1
                        elif o is ast.GtE: lower = max(lower, b_) if lower is not None else b_
            ok = isinstance(limit, int) and upper is not None and upper <= limit - 1 and lower is not None and lower >= 0
            chk.ob("configured-payload-length-fits-a-frame", f.site(c), ok, f"{f.qualname}: `{ast.unparse(c)[:60]}` is reached only with {lower} <= {attr} <= {upper} (frame limit {limit} - 1)" if ok else f"{f.qualname}: `{ast.unparse(c)[:60]}` builds a payload of {attr} octets without bounding it ({lower}..{upper}): a configured length above {limit} - 1 is accepted and queued and fails in CEMIFrame.to_knx, a negative one leaves as ValueError", key=f"configured-length|{f.qualname}")
    chk.floor("payloads sized by configuration", n_sites, 1)


def run(chk: Check, repo: Repo) -> None:
    configured_length_fits_a_frame(chk, repo)
    inv = ctor_invariant(chk, repo)
    mr = engine(repo)
    reason = "the payload constructor left every element in 0..255 (obligation payload-constructor-establishes-octet-range)"
    for q in ("GroupValueWrite.to_knx", "GroupValueResponse.to_knx"):
        f = repo.func("xknx.telegram.apci", q)
        reviewed = {f"ValueError|{q}|bytes(self.value.value)": (reason, lambda: inv)}
        bad = check_entry(chk, mr, f, ("ConversionError",), label=q, reviewed=reviewed, rule="queued-payload-serialises")
        raises = [n for n in walk_local(f.node) if isinstance(n, ast.Raise)]
        only_empty = all(isinstance(p, ast.If) and ast.unparse(p.test) == "not self.value.value" for n in raises for p in [next((x for x in walk_local(f.node) if isinstance(x, ast.If) and n in x.body), None)])
        chk.ob("queued-payload-serialises", f.site(), only_empty, f"{q}: the only explicit refusal is the empty-array test ({len(raises)} raise statements)", key=f"refusals|{q}")
    construction_sites(chk, repo)

    def scene_number_single_octet() -> bool:
        c_ = repo.cls("xknx.dpt.dpt_17", "DPTSceneNumber")
        m_ = repo.lookup_method(c_, "to_knx")
        rets = [n_ for n_ in walk_local(m_.node) if isinstance(n_, ast.Return)]
        return repo.const(c_, "payload_length") == 1 and len(rets) == 1 and isinstance(rets[0].value, ast.Call) and call_name(rets[0].value) == "DPTArray" and len(rets[0].value.args) == 1 and isinstance(rets[0].value.args[0], ast.Name)

    def string_padding_non_negative() -> bool:
        """the octets whose count is subtracted are `<text>.encode(<single-octet codec>, errors='replace')` and the
        subtraction is reached only where cls._test_boundaries(<the same text>) held, which is len(text) <= payload_length"""
        c_ = repo.cls("xknx.dpt.dpt_16", "DPTString")
        m_ = repo.lookup_method(c_, "to_knx")
        tb = repo.lookup_method(c_, "_test_boundaries")
        encs = {repo.const(k, "_encoding") for k in [c_] + repo.subclasses(c_, strict=True)}
        tparam = tb.node.args.args[1].arg
        trets = [n for n in walk_local(tb.node) if isinstance(n, ast.Return)]
        if not (len(trets) == 1 and ast.unparse(trets[0].value) in (f"len({tparam}) <= cls.payload_length", f"cls.payload_length >= len({tparam})")) or not encs <= {"ascii", "latin_1"}:
            return False
        cfg_ = CFG(m_.node)
        mf_ = cfg_.must_facts()
        for n in cfg_.nodes:
            if n.ast is None or n.kind != "stmt":
                continue
            for c in [x for x in ast.walk(n.ast) if isinstance(x, ast.Call) and call_name(x) == "bytes" and len(x.args) == 1 and isinstance(x.args[0], ast.BinOp) and isinstance(x.args[0].op, ast.Sub)]:
                right = inline_locals(m_.node, c.args[0].right)
                if not (ast.unparse(c.args[0].left) == "cls.payload_length" and isinstance(right, ast.Call) and call_name(right) == "len" and isinstance(right.args[0], ast.Call) and isinstance(right.args[0].func, ast.Attribute) and right.args[0].func.attr == "encode"):
                    return False
                enc = right.args[0]
                if not any(k.arg == "errors" and isinstance(k.value, ast.Constant) and k.value.value == "replace" for k in enc.keywords) or ast.unparse(enc.args[0]) != "cls._encoding":
                    return False
                text = ast.unparse(enc.func.value)
                held = False
                for t, val in mf_[n.id]:
                    e = ast.parse(t, mode="eval").body
                    if val and isinstance(e, ast.Call) and call_name(e) == "cls._test_boundaries" and len(e.args) == 1 and ast.unparse(inline_locals(m_.node, e.args[0])) == text:
                        held = True
                if not held:
                    return False
                return True
        return False

    builder_reviewed = {
        "IndexError|DPTSceneControl._to_knx|DPTSceneNumber.to_knx(value.scene_number).value[0]": ("DPTSceneNumber.to_knx returns a one-octet array (payload_length 1, DPTArray(<int>))", scene_number_single_octet),
        "ValueError|DPTString.to_knx|bytes(cls.payload_length - len(str(value).encode(cls._encoding, errors='replace')))": ("single-octet codecs (ascii / latin_1) with errors='replace' give one octet per character and len(value) <= payload_length was tested", string_padding_non_negative),
        "ZeroDivisionError|RemoteValueScaling._calc_to_knx|(value - range_from) / (range_to - range_from)": ("range_from != range_to is a configuration matter, not a property of the value being sent", None),
        "ValueError|DPTBase.get_dpt|raise ValueError(f'Invalid value type for base class {cls.__name__}: {value_type}')": ("an unknown value_type is refused with the documented ValueError before any value is looked at", None),
        "ValueError|DPTBase.parse_transcoder|int($0)": ("value_type parsing (caught by get_dpt's own handling of the type name), independent of the value", None),
    }
    # payload builders raise only ConversionError
    rv = repo.cls("xknx.remote_value.remote_value", "RemoteValue")
    seen: set[str] = set()
    n = 0
    for c in [rv] + repo.subclasses(rv, strict=True):
        m = repo.lookup_method(c, "to_knx")
        if m is None or (m.ref, c.ref if m.cls is rv else "") in seen:
            continue
        if m.cls is not rv and m.ref in seen:
            continue
        seen.add(m.ref if m.cls is not rv else m.ref + c.ref)
        dc = repo.class_attr_expr(c, "dpt_class")
        if m.cls is rv and (dc is None or ast.unparse(dc[0]) == "None") and not any(isinstance(w.stmt, (ast.Assign, ast.AnnAssign)) and w.func.cls is not None and repo.is_subclass(c, w.func.cls) for w in attr_writes(repo, "dpt_class", include_mutators=False)):
            continue  # abstract: to_knx raises NotImplementedError by design
        n += 1
        # the property quantifies over wrong types too: the value parameter carries a caller value of unchecked type
        vp = [a.arg for a in m.node.args.args if a.arg not in ("self", "cls")][:1]
        check_entry(chk, mr, m, ("ConversionError", "NotImplementedError"), ctx=c, label=f"{c.name}.to_knx", rule="value-rejected-with-conversion-error", reviewed=builder_reviewed, argkinds={v: frozenset([UNTYPED]) for v in vp})
    chk.floor("remote value encoders analysed", n, 15)
    pp = repo.func("xknx.tools.group_communication", "_parse_payload")
    # a raw list goes into DPTArray, which checks the range of integers only (non-integers pass - pinned by upstream
    # tests): at this boundary the elements have to be checked to be integers, else a payload is queued that cannot be
    # serialised (and that the eager decode of a configured address chokes on)
    ppc = CFG(pp.node)
    ppf = ppc.must_facts()
    rd = ppc.reaching_defs()
    raw_rets = []
    for r in [n for n in ppc.nodes if n.kind == "stmt" and isinstance(n.ast, ast.Return) and isinstance(n.ast.value, ast.Name)]:
        local = r.ast.value.id
        defs = [ppc.nodes[d].ast for d in rd[r.id].get(local, ()) if d >= 0]
        # a payload taken from the caller: built by DPTArray(<caller data>) or the caller's own DPTArray object
        if any(isinstance(d, ast.Assign) and ((isinstance(d.value, ast.Call) and call_name(d.value) == "DPTArray") or isinstance(d.value, ast.Name)) for d in defs):
            raw_rets.append((r, local))
    for r, local in raw_rets:
        facts = ppf[r.id]
        ints = any(v and a.startswith("all(") and "isinstance(" in a and ", int)" in a and f"{local}.value" in a for a, v in facts)
        nonempty = any((a == f"{local}.value" and v) or (a == f"not {local}.value" and v is False) for a, v in facts)
        bounded = any(a.startswith(f"len({local}.value) > ") and v is False for a, v in facts) or any(a.startswith(f"len({local}.value) <= ") and v for a, v in facts)
        chk.ob("raw-payload-elements-are-integers", pp.site(r.ast), ints, "_parse_payload returns a raw payload " + ("only after all(isinstance(.., int) ..) over its elements held" if ints else "without checking that its elements are integers - DPTArray range-checks integers only"), key="raw|elements-int")
        chk.ob("raw-payload-fits-a-frame", pp.site(r.ast), nonempty and bounded, "_parse_payload returns a raw payload " + ("only when it is not empty and not longer than a frame can carry" if nonempty and bounded else f"without bounding it (non-empty: {nonempty}, length bound: {bounded}) - the sender drops what does not fit, after the call reported success"), key="raw|length")
    chk.floor("raw payload returns of _parse_payload", len(raw_rets), 1)
    # the complex datapoint encoders build their octets from the fields of a value object and rely on DPTArray to refuse
    # what is no octet - which it does for integers only: DPTComplex.to_knx (the one public entry) returns a DPTArray only
    # after checking that its elements are integers (a float colour component would be queued and fail at serialisation)
    ct = repo.func("xknx.dpt.dpt", "DPTComplex.to_knx")
    chk.unit(ct)
    cc = CFG(ct.node)
    cf = cc.must_facts()
    crets = [n for n in cc.nodes if n.kind == "stmt" and isinstance(n.ast, ast.Return) and n.ast.value is not None]
    okc = bool(crets)
    for r in crets:
        if not isinstance(r.ast.value, ast.Name):
            okc = False  # the encoder's result is returned without passing the check
            continue
        loc = r.ast.value.id
        # reached only past `isinstance(p, DPTArray) and not all(..)` being false: no path with the array test true and the
        # all-int test false
        t_arr = [n.id for n in cc.nodes if n.kind == "test" and n.ast is not None and ast.unparse(n.ast) == f"isinstance({loc}, DPTArray)"]
        t_all = [n.id for n in cc.nodes if n.kind == "test" and n.ast is not None and ast.unparse(n.ast).startswith("all(") and "isinstance(" in ast.unparse(n.ast) and ", int)" in ast.unparse(n.ast) and f"{loc}.value" in ast.unparse(n.ast)]
        def passes(s_: int, t_: int, lab: str) -> bool:
            if lab == "exc":
                return False
            if s_ in t_arr and lab == "false":
                return False
            if s_ in t_all and lab == "true":
                return False
            return True
        okc = okc and bool(t_arr) and bool(t_all) and r.id not in cc.reachable([cc.entry], edge_ok=passes)
    chk.ob("complex-value-octets-are-integers", ct.site(), okc, "DPTComplex.to_knx returns the encoded DPTArray " + ("only when all its elements are integers" if okc else "without checking its elements - DPTArray range-checks integers only, a float field is queued and cannot be serialised"), key="complex|octets")
    # a ready-made DPTArray / DPTBinary of the caller takes the same checks: no return of the parameter itself
    vparam = pp.node.args.args[0].arg
    direct = [n for n in ppc.nodes if n.kind == "stmt" and isinstance(n.ast, ast.Return) and isinstance(n.ast.value, ast.Name) and n.ast.value.id == vparam and any(v and a == f"isinstance({vparam}, DPTArray)" or (v and "DPTArray" in a and a.startswith(f"isinstance({vparam},")) for a, v in ppf[n.id])]
    chk.ob("raw-payload-elements-are-integers", pp.site(), not direct, "a DPTArray handed in by the caller " + ("goes through the same checks" if not direct else "is returned as it is - DPTArray(()) or DPTArray((12.5, 26)) get queued"), key="raw|ready-made")
    check_entry(chk, mr, pp, ("ConversionError",), label="_parse_payload", rule="value-rejected-with-conversion-error", reviewed=builder_reviewed, argkinds={vparam: frozenset([UNTYPED])})
    scaling_rejects_out_of_range(chk, repo)
    ordering(chk, repo)
    refusal_precedes_queueing(chk, repo, mr)
    chk.rule("constructor must-facts + ownership census for the payload invariants; E1 may-raise analysis of the payload serialiser and of every payload builder on the send paths; construction-site census; dominance of the build over the queueing call")
    chk.assume("type errors in well-typed callers are mypy's domain (the octet test applies to integer elements)")
    finish(chk, mr)
