"""C30 — secure routing accepts only authenticated, timely frames.

 (a) SecureGroup.handle_knxipframe table over {body: TimerNotify / SecureWrapper / other} x
     {timer authenticated} x {decrypt outcome} x {timer validation} x {service plain-allowed?}:
     forward iff (wrapper, authenticated, decrypt ok, timer valid) -> the decrypted frame, or a plain
     frame of a discovery / self-description service; timer notifications go to the timer only.
 (b) PLAIN_MULTICAST_SERVICES is a subset of the search / description services.
 (c) handle_timer_notify: nothing happens before the MAC verified (table with verify ok/fail x expected
     reply x timer relation); the synchronisation future is completed only if not already done (E6).
 (d) the clock difference moves forward only by positive amounts after authentication:
     writers = update() (called from synchronize with an authenticated value) and `+=` sites whose
     increment is `received - local` under `received > local`, on authenticated paths.
 (e) validate_secure_wrapper decision table over the boundary cells of received vs local timer.
Does not decide the latency arithmetic against the real clock.
"""

from __future__ import annotations

import ast
from itertools import product

from ..absmachine import AbsMachine, Obj, Outcome, Raise, SymInt, UNKNOWN, class_isinstance
from ..astx import attr_writes, call_name, call_sites, calls, method_name, norm_cmp, walk_local
from ..cfg import CFG
from ..exctable import ExcTable
from ..explore import Explorer
from ..loader import NOFOLD, AnalysisError, EnumMember, Repo
from ..report import Check, canon

M = "xknx.io.ip_secure"


def table_group(chk: Check, repo: Repo) -> None:
    fi = repo.func(M, "SecureGroup.handle_knxipframe")
    chk.unit(fi)
    cfg = CFG(fi.node)
    exc = ExcTable(repo)
    p0 = fi.node.args.args[1].arg
    plain = repo.module_const(M, "PLAIN_MULTICAST_SERVICES")
    if not isinstance(plain, tuple) or not all(isinstance(v, EnumMember) for v in plain):
        raise AnalysisError("PLAIN_MULTICAST_SERVICES does not fold to a tuple of service types")
    names = {v.name for v in plain}
    allowed = {n for n in repo.enum_members(repo.cls("xknx.knxip.knxip_enum", "KNXIPServiceType")) if n.startswith(("SEARCH_", "DESCRIPTION_"))}
    chk.ob("plain-services-subset", fi.site(), names <= allowed and bool(names), f"PLAIN_MULTICAST_SERVICES = {sorted(names)}; allowed: discovery and self-description {sorted(allowed)}", key="plain-services")
    cells = 0
    ST = "xknx.knxip.knxip_enum:KNXIPServiceType"
    for body_cls, svc in (("TimerNotify", "TIMER_NOTIFY"), ("SecureWrapper", "SECURE_WRAPPER"), ("RoutingIndication", "ROUTING_INDICATION"), ("SearchRequest", "SEARCH_REQUEST"), ("DescriptionResponse", "DESCRIPTION_RESPONSE"), ("TunnellingRequest", "TUNNELLING_REQUEST")):
        is_w = body_cls == "SecureWrapper"
        for auth, dec, valid in product((False, True), ("ok", "KNXSecureValidationError", "CouldNotParseKNXIP") if is_w else ("n/a",), (False, True) if is_w else (True,)):
            cells += 1
            body = Obj(body_cls, "rx")
            frame = Obj("KNXIPFrame", "received", (("body", body), ("header", Obj("KNXIPHeader", "h", (("service_type_ident", EnumMember(ST, svc)),)))))

            def cm(c: ast.Call, env):
                n = call_name(c)
                if n == "self.secure_timer.handle_timer_notify":
                    return [Outcome("TIMER_NOTIFY", None)]
                if n == "self.decrypt_frame":
                    return [Outcome("DECRYPT:ok", Obj("KNXIPFrame", "decrypted"))] if dec == "ok" else [Outcome(f"DECRYPT:{dec}", Raise(dec))]
                if n == "self.secure_timer.validate_secure_wrapper":
                    return [Outcome(f"VALIDATE({box['am'].ev(c.args[0], env, {})!r})", valid)]
                if n == "super().handle_knxipframe":
                    return [Outcome(f"FORWARD({box['am'].ev(c.args[0], env, {})!r})", None)]
                if "logger" in n:
                    return [Outcome(None, None)]
                return None

            def hook(e, env):
                if isinstance(e, ast.Name) and e.id == "PLAIN_MULTICAST_SERVICES":
                    return plain
                return UNKNOWN

            box = {}
            am = AbsMachine(cfg, exc, cm, hook)
            am.isinstance_fn = class_isinstance(repo)
            box["am"] = am
            env = {p0: frame, f"{p0}.body": body, "self.secure_timer.timer_authenticated": auth}
            paths = Explorer(cfg, repo, am.step).run(cfg.entry, [], env)
            got = {(tuple(t for t in p.env.get("trace", ())), p.end_kind) for p in paths}
            if body_cls == "TimerNotify":
                want = {(("TIMER_NOTIFY",), "exit")}
            elif is_w:
                if not auth:
                    want = {((), "exit")}
                elif dec != "ok":
                    want = {((f"DECRYPT:{dec}",), "exit")}
                elif not valid:
                    want = {(("DECRYPT:ok", f"VALIDATE({body!r})"), "exit")}
                else:
                    want = {(("DECRYPT:ok", f"VALIDATE({body!r})", f"FORWARD({Obj('KNXIPFrame', 'decrypted')!r})"), "exit")}
            elif svc in names:
                want = {((f"FORWARD({frame!r})",), "exit")}
            else:
                want = {((), "exit")}
            chk.ob("group-receive-cell", fi.site(), got == want, f"body={body_cls} authenticated={auth} decrypt={dec} timer_valid={valid}: code {sorted(got)}; reference {sorted(want)}", key=f"grx|{body_cls}|{auth}|{dec}|{valid}" + ("" if got == want else f"|{sorted(got)}"))
    chk.count("group_receive_cells", cells)


def timer_tables(chk: Check, repo: Repo) -> None:
    exc = ExcTable(repo)
    L, SYNC, LAT = 10_000_000, 100, 1000
    rel = {"newer": L + 7, "equal": L, "within sync tolerance": L - SYNC + 1, "at sync tolerance": L - SYNC, "within latency": L - LAT + 1, "at latency": L - LAT, "older": L - LAT - 5}

    def common(c, env, box):
        n = call_name(c)
        if n == "self.current_timer_value":
            return [Outcome(None, L + env.get("#shift", 0))]
        if n == "self.reschedule":
            upd = "update" if c.keywords or c.args else "periodic"
            return [Outcome(f"RESCHEDULE:{upd}", None)]
        if n == "int.from_bytes":
            return [Outcome(None, box["am"].ev(c.args[0], env, {}))]
        if "logger" in n:
            return [Outcome(None, None)]
        return None

    # (e) validate_secure_wrapper
    fv = repo.func(M, "SecureSequenceTimer.validate_secure_wrapper")
    chk.unit(fv)
    cfgv = CFG(fv.node)
    pv = fv.node.args.args[1].arg
    for name, r in rel.items():
        for sched in (False, True):
            box = {}
            am = AbsMachine(cfgv, exc, lambda c, e: common(c, e, box))
            box["am"] = am
            env = {f"{pv}.sequence_information": r, "self._clock_difference": 0, "self.sync_latency_tolerance_ms": SYNC, "self.latency_tolerance_ms": LAT, "self.sched_update": sched}
            paths = Explorer(cfgv, repo, am.step).run(cfgv.entry, [], env)
            got = {(p.env.get("#ret"), p.env.get("self._clock_difference"), tuple(p.env.get("trace", ()))) for p in paths}
            accept = r > L - LAT
            diff = r - L if r > L else 0
            if r > L - SYNC:
                resched = () if sched else ("RESCHEDULE:periodic",)
            elif accept:
                resched = ()
            else:
                resched = () if sched else ("RESCHEDULE:update",)
            want = {(accept, diff, resched)}
            chk.ob("wrapper-timer-cell", fv.site(), got == want, f"received timer {name}, update scheduled={sched}: (accepted, clock advance, reschedule) = {sorted(map(str, got))}; reference {sorted(map(str, want))}", key=f"vsw|{name}|{sched}" + ("" if got == want else f"|{sorted(map(str, got))}"))
    # (c) handle_timer_notify
    fh = repo.func(M, "SecureSequenceTimer.handle_timer_notify")
    chk.unit(fh)
    cfgh = CFG(fh.node)
    ph = fh.node.args.args[1].arg
    own_serial = Obj("bytes", "XKNX_SERIAL_NUMBER")
    for mac_ok, expected, name, keeper, fut_done in product((False, True), ("none", "match", "other tag", "other serial"), ("newer", "within sync tolerance", "within latency", "older"), (False, True), (False, True)):
        r = rel[name]
        tag = Obj("bytes", "tag")
        fut = Obj("Future", "fut")
        box = {}

        def cm(c, env):
            n = call_name(c)
            if n == "self.verify_timer_notify_mac":
                return [Outcome("VERIFY:ok", None)] if mac_ok else [Outcome("VERIFY:fail", Raise("KNXSecureValidationError"))]
            if isinstance(c.func, ast.Attribute) and c.func.attr in ("done", "set_result") and box["am"].ev(c.func.value, env, {}) == fut:
                # a method of the pending reply's future, however the code names it
                if c.func.attr == "done":
                    return [Outcome(None, fut_done)]
                return [Outcome("SET_RESULT" if not fut_done else "SET_RESULT_ON_DONE_FUTURE", None)]
            return common(c, env, box)

        def hook(e, env):
            if isinstance(e, ast.Name) and e.id == "XKNX_SERIAL_NUMBER":
                return own_serial
            return UNKNOWN

        am = AbsMachine(cfgh, exc, cm, hook)
        box["am"] = am
        exp_val = None
        if expected != "none":
            exp_val = (tag if expected != "other tag" else Obj("bytes", "tag2"), fut)
        env = {f"{ph}.timer_value": r, f"{ph}.serial_number": own_serial if expected != "other serial" else Obj("bytes", "other"), f"{ph}.message_tag": tag,
               "self._expected_notify_handler": exp_val, "self._clock_difference": 0, "self.sync_latency_tolerance_ms": SYNC, "self.latency_tolerance_ms": LAT, "self.timekeeper": keeper, "self.sched_update": False}
        paths = Explorer(cfgh, repo, am.step).run(cfgh.entry, [], env)
        got = {(tuple(t for t in p.env.get("trace", ()) if not t.startswith("raise:")), p.env.get("self._clock_difference"), p.env.get("self.timekeeper"), p.end_kind) for p in paths}
        if not mac_ok:
            want = {(("VERIFY:fail",), 0, keeper, "exit")}
        elif expected == "match":
            want = {(("VERIFY:ok",) + (("SET_RESULT",) if not fut_done else ()), 0, keeper, "exit")}
        elif r > L:
            want = {(("VERIFY:ok", "RESCHEDULE:periodic"), r - L, False, "exit")}
        elif r > L - SYNC:
            want = {(("VERIFY:ok", "RESCHEDULE:periodic"), 0, False, "exit")}
        elif r > L - LAT:
            want = {(("VERIFY:ok",), 0, keeper, "exit")}
        else:
            want = {(("VERIFY:ok", "RESCHEDULE:update"), 0, keeper, "exit")}
        ok = got == want
        key = f"htn|{mac_ok}|{expected}|{name}|{keeper}|{fut_done}"
        if not ok and expected == "match" and fut_done and mac_ok:
            key = "htn|duplicate-sync-reply"  # one construct: unguarded set_result
        chk.ob("timer-notify-cell", fh.site(), ok, f"mac_ok={mac_ok} expected_reply={expected} timer={name} timekeeper={keeper} future_done={fut_done}: code {sorted(map(str, got))}; reference {sorted(map(str, want))}", key=key if not ok else f"htn|{mac_ok}|{expected}|{name}")


def clock_writers(chk: Check, repo: Repo) -> None:
    ws = [w for w in attr_writes(repo, "_clock_difference", include_mutators=False)]
    chk.floor("clock difference writers", len(ws), 3)
    for w in ws:
        q = w.func.qualname
        if w.kind == "assign":
            ok = q in ("SecureSequenceTimer.__init__", "SecureSequenceTimer.update")
            why = "assignment allowed in __init__ (0) and update()"
        else:
            cfg = CFG(w.func.node)
            mf = cfg.must_facts()
            node = [n for n in cfg.nodes if n.ast is w.stmt]
            inc = ast.unparse(w.stmt.value)
            pos = False
            for n in node:
                for t, v in mf[n.id]:
                    nc = norm_cmp(ast.parse(t, mode="eval").body, v)
                    if nc and nc[1] == ">" and inc == f"{nc[0]} - {nc[2]}":
                        pos = True
            ok = q in ("SecureSequenceTimer.validate_secure_wrapper", "SecureSequenceTimer.handle_timer_notify") and isinstance(w.stmt.op, ast.Add) and pos
            why = f"increment `{inc}` is positive under the dominating comparison ({pos})"
        chk.ob("clock-writer", w.func.site(w.stmt), ok, f"`{canon(w.stmt)}` in {q}: {why}", key=f"clock|{q}|{w.kind}")
    # update() is only reached from synchronize() with the value delivered by an authenticated notification
    ups = [(f, c) for f, c in call_sites(repo, "update") if f.module.name == M and call_name(c) == "self.update"]
    for f, c in ups:
        chk.ob("clock-update-callers", f.site(c), f.qualname == "SecureSequenceTimer.synchronize", f"update() called from {f.qualname}", key=f"clock-update|{f.qualname}")
    sy = repo.func(M, "SecureSequenceTimer.synchronize")
    chk.unit(sy)
    from ..shape import single_assignments
    d = single_assignments(sy.node)
    upc = [c for c in calls(sy.node) if call_name(c) == "self.update"]
    ok = False
    if len(upc) == 1:
        arg = upc[0].keywords[0].value if upc[0].keywords else (upc[0].args[0] if upc[0].args else None)
        v = d.get(arg.id) if isinstance(arg, ast.Name) else arg
        if isinstance(v, ast.Await) and isinstance(v.value, ast.Name):
            fut_name = v.value.id
            fdef = d.get(fut_name)
            created = isinstance(fdef, ast.Call) and call_name(fdef).endswith("create_future")
            stored = any(isinstance(n, ast.Assign) and ast.unparse(n.targets[0]) == "self._expected_notify_handler" and isinstance(n.value, ast.Tuple) and len(n.value.elts) == 2 and isinstance(n.value.elts[1], ast.Name) and n.value.elts[1].id == fut_name for n in walk_local(sy.node))
            ok = created and stored
    # ... and it may only move the timer forward: every other writer adds a positive amount (clock-writer above); this
    # one assigns, so the assignment has to sit under a comparison of the reply with the timer's current value
    okm = False
    if len(upc) == 1:
        cfg_s = CFG(sy.node)
        mf_s = cfg_s.must_facts()
        for n_ in cfg_s.nodes:
            if n_.ast is not None and n_.kind == "stmt" and any(x is upc[0] for x in ast.walk(n_.ast)):
                for t_, v_ in mf_s[n_.id]:
                    nc = norm_cmp(ast.parse(t_, mode="eval").body, v_)
                    if nc and nc[1] in (">", ">=") and "current_timer_value" in nc[2] and isinstance(arg, ast.Name) and nc[0] == arg.id:
                        okm = True
    if not okm and len(upc) == 1 and isinstance(arg, ast.Name):
        # ... or under a disjunction whose other arm says that nothing authenticated has moved the timer yet: the offset
        # still has the value __init__ gave it (every other writer adds a positive amount - clock-writer above), so what
        # is replaced is the own, unauthenticated clock (no wrapper was sent or accepted with it: send|before-sync and the
        # group-receive cells)
        init0 = [w for w in attr_writes(repo, "_clock_difference", include_mutators=False) if w.func.qualname == "SecureSequenceTimer.__init__"]
        init_v = repo.fold(init0[0].stmt.value, sy.module, sy.cls) if len(init0) == 1 else None
        for node_ in walk_local(sy.node):
            if isinstance(node_, ast.If) and any(x is upc[0] for st_ in node_.body for x in ast.walk(st_)) and isinstance(node_.test, ast.BoolOp) and isinstance(node_.test.op, ast.Or):
                def ahead(t_: ast.AST) -> bool:
                    nc = norm_cmp(t_, True)
                    return bool(nc) and nc[1] in (">", ">=") and "current_timer_value" in nc[2] and nc[0] == arg.id
                def untouched(t_: ast.AST) -> bool:
                    return isinstance(t_, ast.Compare) and len(t_.ops) == 1 and isinstance(t_.ops[0], ast.Eq) and ast.unparse(t_.left) == "self._clock_difference" and isinstance(init_v, int) and repo.fold(t_.comparators[0], sy.module, sy.cls) == init_v
                # "untouched" is the conjunction of both: the offset still has its initial value AND no wrapper was ever
                # sent or accepted with this timer (a time keeper that ran on its own clock after an unanswered first
                # synchronisation also has offset 0 - its wrappers are out) - the second is a flag raised at the end of
                # synchronize() and never lowered
                iu = [w for w in attr_writes(repo, "timer_in_use", include_mutators=False)]
                iu_by = {}
                for w in iu:
                    iu_by.setdefault(w.func.qualname, []).append(ast.unparse(w.stmt.value))
                flag_ok = iu_by == {"SecureSequenceTimer.__init__": ["False"], "SecureSequenceTimer.synchronize": ["True"]}
                def fresh(t_: ast.AST) -> bool:
                    if not (isinstance(t_, ast.BoolOp) and isinstance(t_.op, ast.And)):
                        return False
                    unused = any(isinstance(x, ast.UnaryOp) and isinstance(x.op, ast.Not) and ast.unparse(x.operand) == "self.timer_in_use" for x in t_.values)
                    return flag_ok and unused and any(untouched(x) for x in t_.values) and all(untouched(x) or (isinstance(x, ast.UnaryOp) and isinstance(x.op, ast.Not) and ast.unparse(x.operand) == "self.timer_in_use") for x in t_.values)
                arms = node_.test.values
                okm = any(ahead(t_) for t_ in arms) and all(ahead(t_) or fresh(t_) for t_ in arms)
    chk.ob("sync-reply-never-moves-the-timer-back", sy.site(upc[0]) if upc else sy.site(), okm, "synchronize() applies the reply only when it is ahead of the timer" if okm else "synchronize() assigns the reply's value to the timer unconditionally (`self.update(new_value=...)`): a reply lower than what the timer has reached meanwhile (other authenticated notifications / wrappers moved it on while the request was pending; or our own request echoed back from another address) sets the timer BACK — outgoing wrappers then carry a lower timer value and an older replayed wrapper falls inside the tolerance again", key="clock|sync-reply-can-move-the-timer-back")
    chk.ob("clock-update-source", sy.site(), ok, "the synchronised value is the result of the future this synchronize() created and stored as the expected reply, i.e. the one handle_timer_notify completes after MAC verification", key="clock-update-source")
    # validate_secure_wrapper is only called after decrypt_frame succeeded (table (a)) ; census of callers
    for f, c in call_sites(repo, "validate_secure_wrapper"):
        chk.ob("validate-callers", f.site(c), f.qualname == "SecureGroup.handle_knxipframe", f"validate_secure_wrapper called from {f.qualname}", key=f"validate-caller|{f.qualname}")
    for f, c in call_sites(repo, "handle_timer_notify"):
        chk.ob("validate-callers", f.site(c), f.qualname == "SecureGroup.handle_knxipframe", f"handle_timer_notify called from {f.qualname}", key=f"notify-caller|{f.qualname}")
    # outgoing wrappers use the current timer value
    g = repo.func(M, "SecureGroup.get_sequence_information")
    chk.unit(g)
    rets = [n for n in walk_local(g.node) if isinstance(n, ast.Return)]
    chk.ob("outgoing-timer", g.site(), len(rets) == 1 and ast.unparse(rets[0].value) == "self.secure_timer.get_for_outgoing_secure_wrapper().to_bytes(6, 'big')", "outgoing wrappers carry the current timer value (6 octets)", key="outgoing-timer")
    # ... and none leaves before the synchronisation has set the timer: the value a wrapper sent meanwhile carries (own
    # clock, possibly moved on by authenticated notifications) can be above the one the reply sets - the next wrapper would
    # carry a lower one.  The receive path has the same gate (group-receive cells); the flag is set only at the end of
    # synchronize() and withdrawn by stop(), so a second connect() of the same object is gated again
    sd = repo.func(M, "SecureGroup.send")
    chk.unit(sd)
    scfg = CFG(sd.node)
    smf = scfg.must_facts()
    enc = [n for n in scfg.nodes if n.ast is not None and n.kind == "stmt" and any(call_name(c) in ("self.encrypt_frame", "super().send") for c in calls(n.ast))]
    gated = bool(enc) and all(("self.secure_timer.timer_authenticated", True) in smf[n.id] for n in enc)
    chk.ob("no-wrapper-before-the-timer-is-synchronised", sd.site(), gated, "SecureGroup.send wraps and sends only where secure_timer.timer_authenticated holds" if gated else "SecureGroup.send wraps a frame with the unsynchronised timer: a send while connect() still waits for the synchronisation reply carries a timer value above the one the reply then sets - the next wrapper's timer value is lower", key="send|before-sync")
    tw = attr_writes(repo, "timer_authenticated", include_mutators=False)
    by = {}
    for w in tw:
        by.setdefault(w.func.qualname, []).append(ast.unparse(w.stmt.value))
    okw = by.get("SecureSequenceTimer.synchronize") == ["True"] and by.get("SecureSequenceTimer.stop") == ["False"] and by.get("SecureSequenceTimer.__init__") == ["False"] and set(by) == {"SecureSequenceTimer.synchronize", "SecureSequenceTimer.stop", "SecureSequenceTimer.__init__"}
    chk.ob("no-wrapper-before-the-timer-is-synchronised", sy.site(), okw, f"timer_authenticated writers: {by} (reference: False in __init__ and stop(), True at the end of synchronize())", key="send|flag-writers")


def latency_plumbing(chk: Check, repo: Repo) -> None:
    """The tolerance the timer compares with (`latency_tolerance_ms`, the cells above) is the one the connection was
    configured with: the value travels SecureRouting(latency_ms) -> SecureGroup(latency_ms=) -> SecureSequenceTimer(
    latency_ms=) -> self.latency_tolerance_ms, and no hop falls back to a callee default by omitting the argument."""
    hops = [
        ("xknx.io.knxip_interface", "KNXIPInterface._start_secure_routing", "SecureRouting", "latency_ms"),
        ("xknx.io.routing", "SecureRouting._init_transport", "SecureGroup", "latency_ms"),
        (M, "SecureGroup.__init__", "SecureSequenceTimer", "latency_ms"),
    ]
    from ..astx import inline_locals
    for mod, q, callee, kw in hops:
        f = repo.func(mod, q)
        chk.unit(f)
        cs = [c for c in calls(f.node) if call_name(c) == callee]
        ok = len(cs) == 1
        detail = f"{len(cs)} `{callee}(...)` sites"
        if ok:
            k = next((x.value for x in cs[0].keywords if x.arg == kw), None)
            params = {a.arg for a in f.node.args.args + f.node.args.kwonlyargs}
            if k is None:
                ok, detail = False, f"`{callee}(...)` is built without `{kw}=`: the callee's default replaces the configured value"
            else:
                src = ast.unparse(k)
                own_attr = isinstance(k, ast.Attribute) and isinstance(k.value, ast.Name) and k.value.id == "self" and k.attr == kw
                own_param = isinstance(k, ast.Name) and (k.id in params or kw in ast.unparse(inline_locals(f.node, k)))
                ok = own_attr or own_param
                detail = f"`{callee}({kw}={src})`" + ("" if ok else " is not the caller's own configured value")
        chk.ob("configured-latency-tolerance-reaches-the-timer", f.site(cs[0] if cs else None), ok, f"{q}: {detail}", key=f"latency|{q}")
    ini = repo.func("xknx.io.routing", "SecureRouting.__init__")
    asg = [n for n in walk_local(ini.node) if isinstance(n, ast.Assign) and ast.unparse(n.targets[0]) == "self.latency_ms"]
    ok = len(asg) == 1 and any(isinstance(x, ast.Name) and x.id == "latency_ms" for x in ast.walk(asg[0].value))
    chk.ob("configured-latency-tolerance-reaches-the-timer", ini.site(), ok, "SecureRouting.latency_ms is set from its latency_ms argument (default only when none is given)", key="latency|SecureRouting.__init__")
    ti = repo.func(M, "SecureSequenceTimer.__init__")
    asg = [n for n in walk_local(ti.node) if isinstance(n, (ast.Assign, ast.AnnAssign)) and ast.unparse(n.targets[0] if isinstance(n, ast.Assign) else n.target) == "self.latency_tolerance_ms"]
    ok = len(asg) == 1 and ast.unparse(asg[0].value) == "latency_ms"
    chk.ob("configured-latency-tolerance-reaches-the-timer", ti.site(), ok, "SecureSequenceTimer.latency_tolerance_ms = latency_ms", key="latency|timer")
    ws = [w for w in attr_writes(repo, "latency_tolerance_ms", include_mutators=False)]
    chk.ob("configured-latency-tolerance-reaches-the-timer", ti.site(), {w.func.qualname for w in ws} == {"SecureSequenceTimer.__init__"}, f"latency_tolerance_ms is written only in {sorted({w.func.qualname for w in ws})}", key="latency|writers")


def run(chk: Check, repo: Repo) -> None:
    latency_plumbing(chk, repo)
    table_group(chk, repo)
    timer_tables(chk, repo)
    clock_writers(chk, repo)
    chk.rule("E7 decision tables of SecureGroup.handle_knxipframe, handle_timer_notify and validate_secure_wrapper (boundary cells of the timer comparison); E6 future completion guard; E5 writer census of the clock difference with positivity from must-facts")
    chk.assume("the monotonic event-loop clock does not go backwards; latency-window arithmetic against the real clock is not decided")
