"""C21 — KNX/IP bodies round-trip exactly.

E2 bit-provenance, R∘W, for every body class and the sub-structures they embed (HPAI, CRI, CRD): a symbolic object is
built through the class's own `__init__` from its parameter annotations (ints unbounded, refined by what the writer
enforces; byte strings of unknown length; enum members; nested structures; one variant per Optional alternative);
`to_knx` is evaluated on it, then `from_knx` of a default-constructed instance on the produced octets:
  * `calculated_length()` == number of octets `to_knx` produces (so the header's total length, which
    KNXIPFrame.init_from_body sets to HEADERLENGTH + calculated_length(), is the frame length);
  * `from_knx` accepts those octets and consumes all of them;
  * every attribute of the parsed body equals the original's (bit provenance for numbers, same octets for byte
    strings, same member for enums, same text for address strings under the inet_aton/inet_ntoa inverse pair).
Bodies that carry lists (DescriptionResponse, SearchResponse(.Extended): DIBs; SearchRequestExtended: SRPs) are checked
structurally: `calculated_length` sums, and `to_knx` concatenates, the per-element methods over the same list, after the
same fixed prefix; the element classes' own length agreement is evaluated where their codecs are in the fragment.
"""

from __future__ import annotations

import ast
from typing import Any

from ..astx import call_name, calls, walk_local
from ..loader import AnalysisError, ClassInfo, EnumMember, Repo
from ..report import Check
from ..sereval import BV, INF, TOP, AbstractRaise, Blob, Bytes, EnumV, Lin, ListV, Obj, Run, SerEval, Src, StrV, Unsupported, _FieldRef

# attributes a parser path may leave at the constructor default, with the reason read from the specification /
# the code comment; anything else left unparsed is a violation
NOT_PARSED = {
    ("ConnectRequestInformation", "knx_layer"): "carried on the wire only for tunnel connections",
    ("ConnectRequestInformation", "individual_address"): "carried only in the extended tunnel CRI",
    ("ConnectResponseData", "individual_address"): "carried only for tunnel connections",
    ("ConnectResponse", "data_endpoint"): "an error response (status != E_NO_ERROR) carries no HPAI / CRD; the parser ignores the rest",
    ("ConnectResponse", "crd"): "an error response (status != E_NO_ERROR) carries no HPAI / CRD; the parser ignores the rest",
}

# entries of NOT_PARSED whose reason is "the writer does not carry the field on this path" — the exemption lapses when
# the field's bits are in the serialised octets
ABSENT_FROM_WIRE = {("ConnectRequestInformation", "knx_layer"), ("ConnectRequestInformation", "individual_address"), ("ConnectResponseData", "individual_address")}

LIST_BODIES = {"DescriptionResponse", "SearchResponse", "SearchResponseExtended", "SearchRequestExtended"}


def init_params(repo: Repo, ci: ClassInfo) -> list[tuple[str, str]]:
    init = repo.lookup_method(ci, "__init__")
    if init is None:
        return []
    return [(a.arg, ast.unparse(a.annotation) if a.annotation is not None else "int") for a in init.node.args.args[1:] + init.node.args.kwonlyargs]


def variants(repo: Repo, ev: SerEval, ci: ClassInfo, prefix: str = "") -> list[dict]:
    out: list[dict] = [{}]
    for name, ann in init_params(repo, ci):
        fq = prefix + name
        parts = [p.strip() for p in ann.split("|")]
        non_none = [p for p in parts if p != "None"]
        alts: list[dict] = [{}]
        sub = ev.cls_of(non_none[0], ci.module) if len(non_none) == 1 else None
        if sub is not None and not repo.is_enum(sub) and sub.name not in ("IndividualAddress", "GroupAddress"):
            alts = variants(repo, ev, sub, fq + ".")
        if "None" in parts:
            alts = alts + [{fq: "None"}]
        out = [dict(v, **a) for v in out for a in alts]
    return out


_FIXED: dict[str, dict[str, int]] = {}


def fixed_lengths(ev: SerEval, repo: Repo, ci: ClassInfo) -> dict[str, int]:
    """octet-string attributes whose length the parser fixes (raw[2:8] -> 6): 'field values the specification allows on
    the wire' have exactly that length.  Learned from from_knx on a symbolic input; attributes whose length follows
    the input length stay variable."""
    if ci.ref in _FIXED:
        return _FIXED[ci.ref]
    fk = repo.lookup_method(ci, "from_knx")
    out: dict[str, set] = {}
    if fk is not None and "staticmethod" not in fk.decorators and "classmethod" not in fk.decorators:
        def fn(run: Run):
            fresh = ev.construct(ci, [], {}, run)
            ev.call_function(fk, [Bytes((Blob("in", Lin(0), Lin(0, {"L": 1})),))], {}, run, self_val=fresh, ctx=ci)
            return fresh
        try:
            for outcome, val, r in ev.paths(fn, max_paths=2000):
                if outcome != "return":
                    continue
                for k, v in val.fields.items():
                    if isinstance(v, Bytes):
                        ln = ev.length(v, r)
                        out.setdefault(k, set()).add(ln.c if ln.is_const() else None)
        except Unsupported:
            out = {}
    res = {k: next(iter(v)) for k, v in out.items() if len(v) == 1 and None not in v}
    _FIXED[ci.ref] = res
    return res


def sym_arg(ev: SerEval, repo: Repo, run: Run, owner: ClassInfo, fq: str, ann: str, variant: dict) -> Any:
    parts = [p.strip() for p in ann.split("|")]
    if "None" in parts and variant.get(fq) == "None":
        return None
    base = [p for p in parts if p != "None"][0]
    if base == "int":
        return _FieldRef(fq)
    if base == "bool":
        return BV((Src("f", fq, 0),))
    if base == "str":
        return StrV(fq)
    if base in ("bytes", "bytearray"):
        k = fixed_lengths(ev, repo, owner).get(fq.rsplit(".", 1)[-1])
        if k is not None:
            run.notes.append(f"{fq}: {k} octets (the length the parser reads)")
            return Bytes((Blob(("f", fq), Lin(0), Lin(k)),))
        run.__dict__.setdefault("lensyms", []).append(f"len:{fq}")
        return Bytes((Blob(("f", fq), Lin(0), Lin(0, {f"len:{fq}": 1})),))
    if base in ("IndividualAddress", "GroupAddress"):
        return Obj(base, {"raw": BV(tuple(Src("f", fq, i) for i in range(16)))}, ev.cls_of(base))
    ci = ev.cls_of(base, owner.module)
    if ci is None:
        raise Unsupported(f"parameter type {ann}")
    if repo.is_enum(ci):
        vals = [v for v in repo.enum_members(ci).values() if isinstance(v, int)]
        bv = BV(tuple(Src("f", fq, i) for i in range(max(vals).bit_length())))
        run.__dict__.setdefault("known_members", set()).add((ci.ref, repr(bv)))
        return EnumV(ci.ref, bv)
    return sym_obj(ev, repo, run, ci, variant, fq + ".")


def sym_obj(ev: SerEval, repo: Repo, run: Run, ci: ClassInfo, variant: dict, prefix: str = "") -> Obj:
    kwargs = {name: sym_arg(ev, repo, run, ci, prefix + name, ann, variant) for name, ann in init_params(repo, ci)}
    return ev.construct(ci, [], kwargs, run)


def same(ev: SerEval, run: Run, fq: str, a: Any, b: Any, problems: list[str]) -> None:
    """original attribute value `a` vs parsed `b`."""
    if isinstance(a, _FieldRef) or (isinstance(a, BV) and a.tail is not None and a.tail != TOP and not a.bits and a.tail[2] == 0):
        name = a.name if isinstance(a, _FieldRef) else a.tail[1]
        lo, hi = run.field_range.get(name, (-INF, INF))
        z = run.zero_from.get(name, INF)
        w = min(int(hi).bit_length() if hi != INF else INF, z)
        if w == INF:
            problems.append(f"`{fq}`: the writer neither bounds nor refuses the value (decoded {b!r})")
            return
        want = BV(tuple(Src("f", name, i) for i in range(int(w))))
        g = ev.to_bv(b, run) if isinstance(b, (BV, int, Lin, EnumV)) and not isinstance(b, bool) else b
        if g != want:
            problems.append(f"`{fq}` ({w} bits on the wire) parses as {b!r}")
        return
    if isinstance(a, Obj):
        if not isinstance(b, Obj) or a.cls != b.cls:
            problems.append(f"`{fq}` parses as {b!r}")
            return
        assigned = run.__dict__.get("assigned", {}).get(id(b))
        for k in sorted(set(a.fields) | set(b.fields)):
            nested_parsed = isinstance(b.fields.get(k), Obj) and bool(run.__dict__.get("assigned", {}).get(id(b.fields[k])))
            if assigned is not None and k not in assigned and (a.cls, k) in NOT_PARSED and not nested_parsed:
                # the exemption is for a field the writer did not put on the wire on this path; what was serialised
                # must come back
                on_wire = (a.cls, k) in ABSENT_FROM_WIRE and "wire" in run.__dict__ and a.fields.get(k) is not None and f"{k}" in repr(ev.norm_bytes(run.__dict__["wire"], run))
                if not on_wire:
                    run.notes.append(f"unparsed {a.cls}.{k}: {NOT_PARSED[(a.cls, k)]}")
                    continue
            same(ev, run, f"{fq}.{k}", a.fields.get(k), b.fields.get(k), problems)
        return
    if isinstance(a, Bytes):
        x, y = ev.norm_bytes(a, run), (ev.norm_bytes(b, run) if isinstance(b, Bytes) else b)
        if not isinstance(y, Bytes) or repr(x) != repr(y):
            problems.append(f"`{fq}` (octets {x!r}) parses as {y!r}")
        return
    if isinstance(a, EnumV):
        if not isinstance(b, EnumV) or a.enum != b.enum or ev.to_bv(a, run) != ev.to_bv(b, run):
            problems.append(f"`{fq}` ({a!r}) parses as {b!r}")
        return
    if isinstance(a, BV):
        g = ev.to_bv(b, run) if isinstance(b, (BV, int)) and not isinstance(b, bool) else b
        if isinstance(b, bool):
            g = BV.const(int(b))
        if g != a:
            problems.append(f"`{fq}` ({a!r}) parses as {b!r}")
        return
    if isinstance(a, (StrV, str, int, bool)) or a is None:
        if isinstance(a, int) and not isinstance(a, bool) and isinstance(b, BV) and b.is_const():
            b = b.value()
        if a != b:
            problems.append(f"`{fq}` ({a!r}) parses as {b!r}")
        return
    if isinstance(a, (list, tuple)) and isinstance(b, (list, tuple)) and len(a) == len(b) == 0:
        return
    raise Unsupported(f"comparison of {a!r}")


def roundtrip(chk: Check, repo: Repo, ev: SerEval, ci: ClassInfo, kind: str) -> int:
    tk, fk, cl = repo.lookup_method(ci, "to_knx"), repo.lookup_method(ci, "from_knx"), repo.lookup_method(ci, "calculated_length")
    if tk is None or fk is None:
        raise AnalysisError(f"{ci.name}: codec methods not found")
    chk.unit(tk); chk.unit(fk)
    n = 0
    for variant in variants(repo, ev, ci):
        vdesc = ", ".join(f"{k}={v}" for k, v in sorted(variant.items())) or "all parameters given"

        def fn(run: Run, variant=variant):
            o = sym_obj(ev, repo, run, ci, variant)
            run.__dict__["orig"] = o
            try:
                out = ev.call_function(tk, [], {}, run, self_val=o, ctx=ci)
            except AbstractRaise as r:
                return ("refused", r.exc, None, None, None)
            out = ev.as_bytes(out, run)
            run.__dict__["wire"] = out
            ln = ev.call_function(cl, [], {}, run, self_val=o, ctx=ci) if cl is not None else None
            fresh = ev.construct(ci, [], {}, run)
            run.__dict__["assigned"] = {id(fresh): set()}
            is_static = "staticmethod" in fk.decorators or "classmethod" in fk.decorators
            if is_static:
                got = ev.call_function(fk, [out], {}, run, ctx=ci)
                return ("parsed", out, ln, got, None)
            consumed = ev.call_function(fk, [out], {}, run, self_val=fresh, ctx=ci)
            return ("parsed", out, ln, fresh, consumed)

        try:
            paths = ev.paths(fn, max_paths=3000)
        except Unsupported as u:
            raise AnalysisError(f"{ci.name}: codec outside the analysed fragment: {u}") from u
        for outcome, val, r in paths:
            lens = {k: list(r.cons.bounds(Lin(0, {k: 1}))) for k in r.__dict__.get("lensyms", [])}
            ldesc = ", ".join(f"{k}={v[0]}..{'' if v[1] == INF else v[1]}" for k, v in sorted(lens.items()))
            desc = f"{ci.name} [{vdesc}{'; ' + ldesc if ldesc else ''}]"
            if outcome == "return" and val[0] == "refused":
                continue
            n += 1
            if outcome != "return":
                short_only = bool(lens) and any(o2 == "return" and v2[0] == "parsed" for o2, v2, _ in paths) and all(v[1] != INF for v in lens.values())
                if short_only:
                    chk.ob("parser-accepts-what-the-serialiser-produced", fk.site(), True, f"{desc}: rejected by from_knx ({val}) — a variable-length field shorter than the parser admits; longer values of the same object are accepted", key=f"short|{ci.name}|{vdesc}|{ldesc}")
                    continue
                chk.ob("parser-accepts-what-the-serialiser-produced", fk.site(), False, f"{desc}: to_knx output is rejected by from_knx with {outcome[6:]} ({val})", key=f"reject|{ci.name}|{vdesc}|{ldesc}|{outcome[6:]}")
                continue
            _, out, ln, got, consumed = val
            enc = ev.length(out, r)
            if ln is not None:
                d = r.cons.norm(ev.to_lin(ln, r) - enc)
                chk.ob("calculated-length-is-serialised-length", cl.site(), d == Lin(0), f"{desc}: calculated_length() = {ln}; to_knx produces {enc} octets", key=f"len|{ci.name}|{vdesc}|{ldesc}" + ("" if d == Lin(0) else f"|{ln}|{enc}"))
            if consumed is not None:
                d = r.cons.norm(ev.to_lin(consumed, r) - enc)
                chk.ob("parser-consumes-everything", fk.site(), d == Lin(0), f"{desc}: from_knx reports {consumed} octets consumed of {enc}", key=f"consumed|{ci.name}|{vdesc}|{ldesc}" + ("" if d == Lin(0) else f"|{consumed}"))
            problems: list[str] = []
            lossy = [x for x in r.notes if x.startswith("LOSSY")]
            same(ev, r, ci.name, r.__dict__["orig"], got, problems)
            chk.ob("parsed-equals-serialised", tk.site(), not problems and not lossy, f"{desc}: " + ("every attribute parses back to the value that was serialised" if not problems and not lossy else "; ".join(lossy + problems)), key=(f"r∘w|{ci.name}|{vdesc}|{ldesc}" if not problems and not lossy else ((("padded-field" if all(x.startswith("LOSSY:padded ") for x in lossy) else "cut-field") + f"|{ci.name}|") + ";".join(sorted({p.split('`')[1].split('.')[-1] for p in problems if '`' in p})) if lossy else f"r∘w|{ci.name}|{vdesc}|" + ";".join(sorted(p.split('`')[1] if '`' in p else p[:40] for p in problems)))))
    return n


def list_body(chk: Check, repo: Repo, ci: ClassInfo) -> None:
    """calculated_length sums and to_knx joins the same per-element methods over the same list after the same prefix."""
    tk, cl = repo.lookup_method(ci, "to_knx"), repo.lookup_method(ci, "calculated_length")
    if tk is None or cl is None:
        raise AnalysisError(f"{ci.name}: methods not found")
    chk.unit(tk)

    def pieces(fn, meth: str, agg: str) -> tuple[list[str], list[str]]:
        rets = [n for n in walk_local(fn.node) if isinstance(n, ast.Return)]
        if len(rets) != 1:
            raise AnalysisError(f"{ci.name}.{fn.name}: expected one return")
        fixed, lists = [], []

        def visit(e: ast.AST) -> None:
            if isinstance(e, ast.BinOp) and isinstance(e.op, ast.Add):
                visit(e.left); visit(e.right)
                return
            if isinstance(e, ast.Call):
                cn = call_name(e)
                if cn in (agg, "b''.join") and e.args and isinstance(e.args[0], (ast.GeneratorExp, ast.ListComp)):
                    g = e.args[0]
                    el = ast.unparse(g.elt)
                    it = ast.unparse(g.generators[0].iter)
                    tv = ast.unparse(g.generators[0].target)
                    ok = el in (f"{tv}.{meth}()", f"len({tv})", f"bytes({tv})", f"{tv}.payload_size")
                    lists.append(f"{it}:{'ok' if ok else el}")
                    return
                if cn.endswith(f".{meth}"):
                    fixed.append(ast.unparse(e.func.value))  # type: ignore[attr-defined]
                    return
            fixed.append(f"?{ast.unparse(e)}")
        visit(rets[0].value)
        return fixed, lists

    f1, l1 = pieces(cl, "calculated_length", "sum")
    f2, l2 = pieces(tk, "to_knx", "b''.join")
    # constants in calculated_length stand for fixed-size embedded structures (HPAI.LENGTH)
    norm1 = [x for x in f1 if not x.startswith("?")]
    norm2 = [x for x in f2 if not x.startswith("?")]
    consts = [x for x in f1 if x.startswith("?")]
    ok = l1 == l2 and all(x.endswith(":ok") for x in l1) and len(l1) == 1 and (norm1 == norm2 or (len(consts) == len(norm2) - len(norm1)))
    chk.ob("list-body-length-follows-serialisation", tk.site(), ok, f"{ci.name}: calculated_length = fixed {f1} + sum over {l1}; to_knx = fixed {f2} + join over {l2}", key=f"listbody|{ci.name}")


def nested_structures_compare_by_value(chk: Check, repo: Repo) -> None:
    """"Parsing that frame yields an equal body": KNXIPBody.__eq__ compares __dict__, so every object a body keeps in an
    attribute (HPAI, CRI/CRD, DIBs, SRPs, ...) has to compare by value itself - a class without __eq__ falls back to
    identity and makes every body holding one unequal to its own parse.  Census over the structure classes of
    xknx.knxip: classes with to_knx and from_knx that are not bodies, frames or headers of their own."""
    base = repo.cls("xknx.knxip.body", "KNXIPBody")
    n = 0
    for c in repo.all_classes():
        if not c.module.name.startswith("xknx.knxip.") or repo.is_subclass(c, base) or repo.is_enum(c):
            continue
        if repo.lookup_method(c, "to_knx") is None or repo.lookup_method(c, "from_knx") is None:
            continue
        if any(isinstance(s_, ast.FunctionDef) and s_.name in ("to_knx",) and any(isinstance(d, ast.Name) and d.id == "abstractmethod" for d in s_.decorator_list) for s_ in c.node.body):
            continue  # abstract interface - its concrete subclasses are checked
        subs = repo.subclasses(c, strict=True)
        if subs and all(repo.is_subclass(k, base) for k in subs):
            continue  # a mixin of body classes - those get KNXIPBody.__eq__
        n += 1
        eq = repo.lookup_method(c, "__eq__")
        value_type = any(b in ("NamedTuple", "tuple") for b in repo.ext_base_names(c)) or any("dataclass" in ast.unparse(d) for d in c.node.decorator_list)
        chk.ob("nested-structure-compares-by-value", f"{c.module.relpath}:{c.node.lineno}:{c.name}", eq is not None or value_type, f"{c.name}: " + (f"__eq__ defined by {eq.cls.name}" if eq is not None else ("value type" if value_type else "no __eq__ in its MRO - bodies holding it compare it by identity")), key=f"eq|{c.name}")
    chk.floor("KNX/IP structure classes checked for value equality", n, 8)
    # a serialiser that asserts on the object's state refuses a constructible object with a bare AssertionError
    for f in repo.all_functions():
        if not f.module.name.startswith("xknx.knxip.") or f.node.name not in ("to_knx", "calculated_length"):
            continue
        for a in walk_local(f.node):
            if isinstance(a, ast.Assert):
                chk.ob("serialiser-does-not-assert-on-its-fields", f.site(a), False, f"{f.qualname}: `{ast.unparse(a)[:90]}` - an object whose fields the constructor accepts (here: the default / error-status case) cannot be serialised", key=f"assert|{f.qualname}")


def run(chk: Check, repo: Repo) -> None:
    ev = SerEval(repo)
    base = repo.cls("xknx.knxip.body", "KNXIPBody")
    bodies = [c for c in repo.subclasses(base, strict=True) if isinstance(repo.const(c, "SERVICE_TYPE"), EnumMember) and "SERVICE_TYPE" in c.attrs]
    chk.floor("KNX/IP body classes", len(bodies), 28)
    n = 0
    for c in sorted(bodies, key=lambda k: k.name):
        if c.name in LIST_BODIES:
            list_body(chk, repo, c)
            continue
        n += roundtrip(chk, repo, ev, c, "body")
    for modname, cname in (("xknx.knxip.hpai", "HPAI"), ("xknx.knxip.connect_request", "ConnectRequestInformation"), ("xknx.knxip.connect_response", "ConnectResponseData")):
        n += roundtrip(chk, repo, ev, repo.cls(modname, cname), "structure")
    chk.count("serialiser paths composed with the parser", n)
    nested_structures_compare_by_value(chk, repo)
    chk.floor("serialiser paths composed with the parser", n, 40)
    # frame level: header length = HEADERLENGTH + calculated_length()
    sl = repo.func("xknx.knxip.header", "KNXIPHeader.set_length")
    ifb = repo.func("xknx.knxip.knxip", "KNXIPFrame.init_from_body")
    chk.unit(sl); chk.unit(ifb)
    asg = [n_ for n_ in walk_local(sl.node) if isinstance(n_, ast.Assign) and ast.unparse(n_.targets[0]) == "self.total_length"]
    ok = len(asg) == 1 and ast.unparse(asg[0].value).replace(" ", "") in ("KNXIPHeader.HEADERLENGTH+body.calculated_length()", "body.calculated_length()+KNXIPHeader.HEADERLENGTH")
    chk.ob("header-length-is-header-plus-body", sl.site(), ok, f"set_length: {ast.unparse(asg[0]) if asg else '?'}", key="frame|set_length")
    # the header object (whatever the local is called) is a fresh KNXIPHeader that gets the body class's service type and
    # set_length(<the body>), and is the header of the returned frame together with that body
    bp = ifb.node.args.args[0].arg
    hvars = {n_.targets[0].id for n_ in walk_local(ifb.node) if isinstance(n_, ast.Assign) and len(n_.targets) == 1 and isinstance(n_.targets[0], ast.Name) and isinstance(n_.value, ast.Call) and call_name(n_.value) == "KNXIPHeader" and not n_.value.args and not n_.value.keywords}
    ok2 = len(hvars) == 1
    if ok2:
        hv = next(iter(hvars))
        ok2 = any(call_name(c_) == f"{hv}.set_length" and [ast.unparse(a) for a in c_.args] == [bp] for c_ in calls(ifb.node))
        ok2 = ok2 and any(isinstance(n_, ast.Assign) and ast.unparse(n_.targets[0]) == f"{hv}.service_type_ident" and ast.unparse(n_.value) in (f"{bp}.__class__.SERVICE_TYPE", f"type({bp}).SERVICE_TYPE", f"{bp}.SERVICE_TYPE") for n_ in walk_local(ifb.node))
        rets_ = [n_ for n_ in walk_local(ifb.node) if isinstance(n_, ast.Return)]
        ok2 = ok2 and len(rets_) == 1 and isinstance(rets_[0].value, ast.Call) and call_name(rets_[0].value) == "KNXIPFrame" and {k.arg: ast.unparse(k.value) for k in rets_[0].value.keywords} == {"header": hv, "body": bp}
    chk.ob("header-length-is-header-plus-body", ifb.site(), ok2, "init_from_body sets the service type from the body class and the length through set_length", key="frame|init_from_body")
    fr = repo.func("xknx.knxip.knxip", "KNXIPFrame.to_knx")
    r = [n_ for n_ in walk_local(fr.node) if isinstance(n_, ast.Return)]
    chk.ob("frame-is-header-then-body", fr.site(), len(r) == 1 and ast.unparse(r[0].value) == "self.header.to_knx() + self.body.to_knx()", f"KNXIPFrame.to_knx returns {ast.unparse(r[0].value) if r else '?'}", key="frame|to_knx")
    chk.rule("E2 bit-provenance evaluation of to_knx composed with from_knx on symbolic bodies built through their own constructors; symbolic length algebra for calculated_length and the consumed count; structural agreement for list bodies; header length rule")
    chk.assume("socket.inet_aton / inet_ntoa are mutually inverse on dotted IPv4 text; byte-string fields have the lengths the writer's own checks admit; DIB / SRP element codecs are covered by C20's parser analysis and the list-body structural rule, not by a bit-level round trip")
