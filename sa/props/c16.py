"""C16 — tampered Data Secure frames are never delivered (structural part).

 (a) in SecureData.get_plain_apdu every return of plaintext is dominated by a comparison of the
     recomputed MAC with the transmitted one whose failing branch raises; the fall-through raises.
 (b) every protected component reaches the MAC computation of the receiver: key, SCF, sequence
     octets, source+destination, address type, extended frame format, TPCI, (plain) APDU, length —
     as arguments of the MAC call / block_0, and block_0 uses all its parameters.
 (c) the only control-flag attribute read on the secure receive path is the frame format
     (priority / repeat / hop count / frame type do not influence acceptance).
 (d) a DataSecureError never leads to delivery (C14 table) — re-checked here by reachability.
Does not decide MAC collision resistance (cryptographic assumption).
"""

from __future__ import annotations

import ast

from ..astx import call_name, calls, method_name, norm_cmp, walk_local
from ..cfg import CFG
from ..loader import AnalysisError, Repo
from ..report import Check
from ..shape import bind_call, names_in, normalise, param_flows_to_return
from .ds_common import ASDU, MACFN, branch_defs, branch_stmts, scf_roundtrip, sides

DS = "xknx.secure.data_secure"


def run(chk: Check, repo: Repo) -> None:
    from .ds_common import block0_octet_is_the_wire_octet
    block0_octet_is_the_wire_octet(chk, repo)
    rcv = sides(repo, "SecureData.get_plain_apdu")
    fi = rcv["CCM_ENCRYPTION"].fi
    chk.unit(fi)
    cfg = rcv["CCM_ENCRYPTION"].cfg
    mf = cfg.must_facts()
    macfn = repo.func("xknx.secure.security_primitives", MACFN)
    b0fn = repo.func(ASDU, "block_0")
    chk.unit(b0fn)
    rets = [n for n in cfg.nodes if isinstance(n.ast, ast.Return)]
    chk.floor("plaintext_return_sites", len(rets), 2)
    for algo, side in rcv.items():
        stmts = branch_stmts(side)
        # name holding the computed MAC
        if not isinstance(side.mac_node.ast, ast.Assign):  # type: ignore[attr-defined]
            raise AnalysisError("receiver: MAC computation result is not assigned")
        mac_name = ast.unparse(side.mac_node.ast.targets[0])  # type: ignore[attr-defined]
        # transmitted MAC
        if algo == "CCM_ENCRYPTION":
            dec = [(c, st) for st in stmts for c in calls(st) if call_name(c) == "decrypt_ctr"]
            if len(dec) != 1 or not isinstance(dec[0][1], ast.Assign) or not isinstance(dec[0][1].targets[0], ast.Tuple):
                raise AnalysisError("receiver ENC: decrypt_ctr tuple assignment not found")
            tx = ast.unparse(dec[0][1].targets[0].elts[1])
            kw = bind_call(dec[0][0], repo.func("xknx.secure.security_primitives", "decrypt_ctr"))
            chk.ob("transmitted-mac-source", fi.site(dec[0][0]), ast.unparse(kw.get("mac", ast.Constant(None))) == "self.message_authentication_code", "the compared MAC is the transmitted one, CTR-decrypted with the frame's counter_0", key="txmac|ENC")
        else:
            tx = "self.message_authentication_code"
        branch_rets = [n for n in rets if any(n.ast is y for st in stmts for y in ast.walk(st))]
        chk.ob("branch-has-return", fi.site(), len(branch_rets) >= 1, f"{algo}: plaintext return found in the branch", key=f"ret|{algo}")
        for rn in branch_rets:
            ok = False
            for text, val in mf[rn.id]:
                e = ast.parse(text, mode="eval").body
                nc = norm_cmp(e, val)
                if nc and nc[1] == "==" and {nc[0], nc[2]} == {mac_name, tx}:
                    ok = True
            chk.ob("return-dominated-by-mac-equality", fi.site(rn.ast), ok, f"{algo}: `{ast.unparse(rn.ast)}` is reached only when `{mac_name} == {tx}` (recomputed vs transmitted MAC)", key=f"gate|{algo}")
        # (b) protected components
        defs = {k: v for k, v in branch_defs(side).items() if k != mac_name}
        b = bind_call(side.mac_call, macfn)
        allargs = " ; ".join(f"{k}={normalise(v, defs)}" for k, v in b.items())
        b0 = [c for c in calls(ast.parse(normalise(b["block_0"], defs), mode="eval")) if call_name(c) == "block_0"] if "block_0" in b else []
        if len(b0) != 1:
            raise AnalysisError(f"{algo}: block_0 call not found among the MAC arguments")
        xb = {k: normalise(v) for k, v in bind_call(b0[0], b0fn).items()}
        plain = "self.secured_apdu" if algo == "CCM_AUTHENTICATION" else ast.unparse(dec[0][1].targets[0].elts[0])
        want = {
            "key": normalise(b.get("key", ast.Constant(None)), defs) == "key",
            "security control field": "scf.to_knx()" in normalise(b.get("additional_data", ast.Constant(None)), defs),
            "sequence number": xb.get("sequence_number") == "self.sequence_number_bytes",
            "source+destination address": xb.get("address_fields_raw") == "address_fields_raw",
            "address type": xb.get("address_type") == "address_type",
            "extended frame format": xb.get("frame_format") == "frame_format",
            "transport PDU": xb.get("tpci_int") == "tpci.to_knx()",
            "APDU": (plain in normalise(b.get("additional_data", ast.Constant(None)), defs)) if algo == "CCM_AUTHENTICATION" else normalise(b.get("payload", ast.Constant(None)), defs) == plain,
            "length": xb.get("payload_length") in ("0", f"len({plain})", "len(self.secured_apdu)"),
        }
        for comp, ok in want.items():
            chk.ob("protected-component-reaches-mac", fi.site(side.mac_call), ok, f"{algo}: {comp} enters the MAC computation ({allargs[:200]}...)", key=f"protected|{algo}|{comp}")
    # fall-through raises
    # an algorithm that is neither of the two ends in DataSecureError: no path falls off the end of the function (an
    # implicit `return None` would hand "no plain APDU" to the caller as if it were one), and a DataSecureError is raised
    # outside both algorithm branches
    cfg_f = CFG(fi.node)
    mf_f = cfg_f.must_facts()
    byid = {n.id: n for n in cfg_f.nodes}
    falls_off = [p_ for p_, _ in byid[cfg_f.exit].pred if not isinstance(byid[p_].ast, ast.Return)]
    outside = [n for n in cfg_f.nodes if isinstance(n.ast, ast.Raise) and n.ast.exc is not None and "DataSecureError" in ast.unparse(n.ast.exc) and not any(v and "algorithm" in t and "==" in t for t, v in mf_f[n.id])]
    chk.ob("fallthrough-raises", fi.site(), not falls_off and bool(outside), "unknown algorithm falls through to raise DataSecureError", key="fallthrough")
    for p, ok in param_flows_to_return(b0fn.node).items():
        chk.ob("block0-uses-param", b0fn.site(), ok, f"block_0 parameter `{p}` reaches the returned block", key=f"b0flow|{p}")
    # block_0: Ctrl2 octet combines only address type and frame format (disjoint bits): A000EEEE
    fmt_vals = repo.enum_members(repo.cls("xknx.cemi.flags", "CEMIFrameFormat")) if "CEMIFrameFormat" in repo.module("xknx.cemi.flags").classes else {}
    if fmt_vals:
        chk.ob("ctrl2-bits-disjoint", b0fn.site(), all(isinstance(v, int) and 0 <= v <= 0x0F for v in fmt_vals.values()), f"CEMIFrameFormat values {sorted(fmt_vals.values())} occupy only EEEE (low nibble), disjoint from the address-type bit 7", key="ctrl2-disjoint")
    # (b') caller passes the frame's own fields
    rc = repo.func(DS, "DataSecure._received_secure_cemi")
    chk.unit(rc)
    cr = [c for c in calls(rc.node) if method_name(c) == "get_plain_apdu"]
    if len(cr) != 1:
        raise AnalysisError("get_plain_apdu call site not unique")
    from ..shape import single_assignments
    dR = single_assignments(rc.node)
    cemi, sapdu = rc.node.args.args[1].arg, rc.node.args.args[2].arg
    kr = {k: normalise(v, dR) for k, v in bind_call(cr[0], fi, skip_self=True).items()}
    exp = {"address_fields_raw": f"{cemi}.src_addr.to_knx() + {cemi}.dst_addr.to_knx()", "address_type": f"{cemi}.address_type", "frame_format": f"{cemi}.flags.frame_format", "tpci": f"{cemi}.tpci", "scf": f"{sapdu}.scf"}
    for p, want_t in exp.items():
        chk.ob("receiver-feeds-frame-fields", rc.site(cr[0]), kr.get(p) == want_t, f"get_plain_apdu({p}={kr.get(p)}); the received frame's field `{want_t}` is required", key=f"feed|{p}")
    chk.ob("receiver-feeds-frame-fields", rc.site(cr[0]), ast.unparse(cr[0].func.value) == f"{sapdu}.secured_data", "verification runs on the received ASDU", key="feed|asdu")
    # (b'') the SCF that enters the MAC is the re-serialised parsed field: parsing must not drop bits
    scf_roundtrip(chk, repo)
    sa = repo.func("xknx.telegram.apci", "SecureAPDU.from_knx")
    chk.unit(sa)
    okp = any(call_name(c) == "SecurityControlField.from_knx" and ast.unparse(c.args[0]).endswith("[2]") for c in calls(sa.node)) and any(call_name(c) == "SecureData.from_knx" and ast.unparse(c.args[0]).endswith("[3:]") for c in calls(sa.node))
    chk.ob("secure-apdu-layout", sa.site(), okp, "SecureAPDU.from_knx takes the SCF from octet 2 and the ASDU from octet 3 on", key="secure-apdu-layout")
    # (c) unprotected control bits do not influence acceptance
    reads: set[str] = set()
    for f in repo.all_functions():
        if f.module.name in (DS, ASDU):
            for n in walk_local(f.node):
                if isinstance(n, ast.Attribute) and isinstance(n.value, ast.Attribute) and n.value.attr == "flags":
                    reads.add(n.attr)
    chk.ob("only-frame-format-read", rc.site(), reads == {"frame_format"}, f"control-flag attributes read on the Data Secure path: {sorted(reads)} (only frame_format allowed: priority/repeat/hop count/frame type are unprotected)", key="flags-read")
    # (d) handler of DataSecureError does not reach delivery
    h = repo.func("xknx.cemi.cemi_handler", "CEMIHandler.handle_cemi_frame")
    chk.unit(h)
    hc = CFG(h.node)
    hs = [n for n in hc.nodes if n.kind == "handler" and n.ast.type is not None and "DataSecureError" in ast.unparse(n.ast.type)]
    deliver = [n.id for n in hc.nodes if n.kind == "stmt" and n.ast is not None and any(call_name(c) == "self.telegram_received" for c in calls(n.ast))]
    ok = bool(hs) and bool(deliver) and all(not (hc.reachable([x.id]) & set(deliver)) for x in hs)
    chk.ob("verification-failure-not-delivered", h.site(), ok, "no path from the `except DataSecureError` handler to telegram_received", key="no-deliver-after-failure")
    chk.rule("E4 must-facts: plaintext returns dominated by MAC equality; def-use: each protected component is an argument of the MAC computation; E5 census of control-flag reads")
    chk.assume("CBC-MAC collision resistance and key secrecy (a different key / any changed MAC input changes the MAC)")
