"""C02 — group address filters match exactly the addresses their pattern denotes.

 (a) purity: AddressFilter.match and everything it calls (level / range matchers, the address component
     properties) assign no attribute, global or container; what they read is the filter's own parsed state, the
     address, GroupAddress.address_format and constants; the only foreign callees are fnmatchcase and
     parse_device_group_address — so the verdict depends on pattern, address and notation only.
 (b) level pairing: a pattern of 3 / 2 / 1 level filters is matched against (main, middle, sub) / (main, sub) /
     (sub = raw in free notation), the i-th filter against the i-th component, all conjoined; a level filter is the
     disjunction of its comma-separated ranges.
 (c) range denotation, by cell evaluation of Range._parse_pattern and its helpers over abstract pattern forms
     ('*', 'N', 'a-b', '-b', 'a-') with representative bounds for every ordering the code distinguishes (a ? b,
     each ? MAX_FREE): membership Range.match(d) at every cut point equals membership in the denoted interval
     intersected with 0..MAX_FREE - open ends extend to 0 / the maximum, reversed ranges are normalised, a value or
     range above the address space denotes nothing (compared by membership, not by the stored representation).
"""

from __future__ import annotations

import ast
from itertools import product
from typing import Any

from ..astx import call_name, calls, walk_local
from ..loader import NOFOLD, AnalysisError, Repo
from ..report import Check

M = "xknx.telegram.address_filter"


class _Raise(Exception):
    pass


class Pat:
    """abstract pattern text: ('star',) | ('digits', n) | ('range', a|None, b|None) | ('num', n) for its pieces"""

    def __init__(self, kind: str, *args: Any) -> None:
        self.kind, self.args = kind, args

    def __repr__(self) -> str:
        if self.kind == "star":
            return "'*'"
        if self.kind in ("digits", "num"):
            return f"'{self.args[0]}'"
        if self.kind == "empty":
            return "''"
        a, b = self.args
        return f"'{'' if a is None else a}-{'' if b is None else b}'"


def run_method(repo: Repo, cls, name: str, self_obj: dict, args: list) -> Any:
    fn = cls.methods[name].node
    params = [a.arg for a in fn.args.args]
    env = dict(zip(params[1:] if "staticmethod" not in cls.methods[name].decorators else params, args))
    max_free = repo.const(repo.cls("xknx.telegram.address", "GroupAddress"), "MAX_FREE")

    def ev(e: ast.AST) -> Any:
        if isinstance(e, ast.Constant):
            return e.value
        if isinstance(e, ast.Name):
            if e.id in env:
                return env[e.id]
            raise AnalysisError(f"C02 cell evaluation: name {e.id}")
        if isinstance(e, ast.Attribute):
            t = ast.unparse(e)
            if t == "GroupAddress.MAX_FREE":
                return max_free
            if isinstance(e.value, ast.Name) and e.value.id == "self":
                return self_obj[e.attr]
            raise AnalysisError(f"C02 cell evaluation: attribute {t}")
        if isinstance(e, ast.Compare):
            vals = [ev(e.left)] + [ev(c) for c in e.comparators]
            ok = True
            for a, op, b in zip(vals, e.ops, vals[1:]):
                if isinstance(op, (ast.Is, ast.IsNot)) and (a is None or b is None):
                    r = (a is b) == isinstance(op, ast.Is)
                elif isinstance(op, ast.NotEq) and not isinstance(a, Pat):
                    r = a != b
                elif isinstance(op, ast.Eq):
                    r = (a.kind == "star") if isinstance(a, Pat) and b == "*" else (a == b)
                elif isinstance(op, ast.In):
                    r = (b.kind == "range") if isinstance(b, Pat) and a == "-" else (a in b)
                elif isinstance(op, ast.Gt):
                    r = a > b
                elif isinstance(op, ast.Lt):
                    r = a < b
                elif isinstance(op, ast.LtE):
                    r = a <= b
                elif isinstance(op, ast.GtE):
                    r = a >= b
                else:
                    raise AnalysisError("C02 cell evaluation: comparison")
                ok = ok and r
            return ok
        if isinstance(e, ast.IfExp):
            return ev(e.body) if truth(ev(e.test)) else ev(e.orelse)
        if isinstance(e, ast.BinOp):
            a, b = ev(e.left), ev(e.right)
            if isinstance(a, int) and isinstance(b, int):
                ops = {ast.Add: lambda: a + b, ast.Sub: lambda: a - b, ast.Mult: lambda: a * b, ast.BitAnd: lambda: a & b, ast.BitOr: lambda: a | b}
                if type(e.op) in ops:
                    return ops[type(e.op)]()
            raise AnalysisError("C02 cell evaluation: arithmetic")
        if isinstance(e, ast.UnaryOp) and isinstance(e.op, ast.Not):
            return not truth(ev(e.operand))
        if isinstance(e, ast.BoolOp):
            v = None
            for sub in e.values:  # value semantics: `x or default` yields the operand, not a bool
                v = ev(sub)
                if truth(v) != isinstance(e.op, ast.And):
                    return v
            return v
        if isinstance(e, (ast.GeneratorExp, ast.ListComp)) and len(e.generators) == 1 and isinstance(e.generators[0].target, ast.Name) and not e.generators[0].is_async:
            g = e.generators[0]
            items = ev(g.iter)
            if not isinstance(items, (tuple, list)):
                raise AnalysisError("C02 cell evaluation: comprehension over a non-sequence")
            out = []
            saved = env.get(g.target.id, NOFOLD)
            for it in items:
                env[g.target.id] = it
                if all(truth(ev(c)) for c in g.ifs):
                    out.append(ev(e.elt))
            if saved is NOFOLD:
                env.pop(g.target.id, None)
            else:
                env[g.target.id] = saved
            return tuple(out)
        if isinstance(e, ast.Tuple):
            return tuple(ev(x) for x in e.elts)
        if isinstance(e, ast.Call):
            n = call_name(e)
            if n.endswith(".isdigit") or n.endswith(".isdecimal"):
                v = ev(e.func.value)  # type: ignore[attr-defined]
                return isinstance(v, Pat) and v.kind in ("digits", "num")
            if n.endswith(".split") and e.args and ev(e.args[0]) == "-":
                v = ev(e.func.value)  # type: ignore[attr-defined]
                if isinstance(v, Pat) and v.kind == "range":
                    return tuple(Pat("num", x) if x is not None else Pat("empty") for x in v.args)
                raise AnalysisError("C02 cell evaluation: split of a non-range")
            if n == "int" and len(e.args) == 1:
                v = ev(e.args[0])
                if isinstance(v, Pat) and v.kind in ("digits", "num"):
                    return v.args[0]
                raise _Raise()
            if n == "bool" and len(e.args) == 1:
                return truth(ev(e.args[0]))
            if n in ("tuple", "list") and len(e.args) == 1:
                return tuple(ev(e.args[0]))
            if n in ("min", "max") and e.args:
                vs = [ev(a) for a in e.args]
                if all(isinstance(v, int) for v in vs):
                    return min(vs) if n == "min" else max(vs)
            if n.startswith("self.") and n[5:] in cls.methods:
                return run_method(repo, cls, n[5:], self_obj, [ev(a) for a in e.args])
            raise AnalysisError(f"C02 cell evaluation: call {n}")
        raise AnalysisError(f"C02 cell evaluation: {type(e).__name__}")

    def truth(v: Any) -> bool:
        if isinstance(v, Pat):
            return v.kind != "empty"
        return bool(v)

    def assign(t: ast.AST, v: Any) -> None:
        if isinstance(t, ast.Name):
            env[t.id] = v
        elif isinstance(t, ast.Attribute) and isinstance(t.value, ast.Name) and t.value.id == "self":
            self_obj[t.attr] = v
        elif isinstance(t, ast.Tuple):
            for tt, vv in zip(t.elts, v):
                assign(tt, vv)
        else:
            raise AnalysisError("C02 cell evaluation: assignment target")

    def block(stmts) -> Any:
        for st in stmts:
            if isinstance(st, ast.Expr):
                if isinstance(st.value, ast.Constant):
                    continue
                ev(st.value)
                continue
            if isinstance(st, ast.Return):
                return ("ret", ev(st.value) if st.value is not None else None)
            if isinstance(st, (ast.Assign, ast.AnnAssign)):
                v = ev(st.value)
                for t in (st.targets if isinstance(st, ast.Assign) else [st.target]):
                    assign(t, v)
                continue
            if isinstance(st, ast.If):
                r = block(st.body if truth(ev(st.test)) else st.orelse)
                if r is not None:
                    return r
                continue
            if isinstance(st, ast.Raise):
                raise _Raise()
            raise AnalysisError(f"C02 cell evaluation: statement {type(st).__name__}")
        return None
    r = block(fn.body)
    return r[1] if r else None


def range_tables(chk: Check, repo: Repo) -> None:
    rng = repo.cls(M, "AddressFilter.Range")
    mf = repo.const(repo.cls("xknx.telegram.address", "GroupAddress"), "MAX_FREE")
    if not isinstance(mf, int):
        raise AnalysisError("GroupAddress.MAX_FREE does not fold")
    for m in ("_parse_pattern", "match"):
        chk.unit(rng.methods[m])
    reps = [0, 1, 7, 8, 9, mf - 1, mf, mf + 1, mf + 4000]  # every ordering a comparison (also an off-by-one variant of it) can distinguish: equal / adjacent / apart, at / around / beyond the maximum

    INF_ = 10 ** 9
    # the denotation the property text gives a pattern: the interval of values, reversed bounds normalised, an open end
    # extending to the maximum - intersected with the address space 0..MAX_FREE.  A value or range above the address
    # space therefore denotes nothing (not {MAX_FREE}).  Compared by membership at the cut points, not by the
    # representation the parser happens to store.
    forms: list[tuple[Pat, tuple[int, int]]] = [(Pat("star"), (0, INF_))]
    for a_ in reps:
        forms.append((Pat("digits", a_), (a_, a_)))
        forms.append((Pat("range", None, a_), (0, a_)))
        forms.append((Pat("range", a_, None), (a_, INF_)))
    for a_, b_ in product(reps, reps):
        lo, hi = sorted((a_, b_))
        forms.append((Pat("range", a_, b_), (lo, hi)))
    site = rng.methods["_parse_pattern"].site()
    n = 0
    for pat, (lo, hi) in forms:
        obj = {"range_from": 0, "range_to": 0}
        try:
            run_method(repo, rng, "_parse_pattern", obj, [pat])
        except _Raise:
            chk.ob("range-denotes-the-interval", site, False, f"pattern {pat!r}: refused", key=f"range|{pat!r}")
            continue
        n += 1
        cuts = sorted({0, 1, lo - 1, lo, lo + 1, hi - 1, hi, hi + 1, mf - 1, mf} & set(range(0, mf + 1)))
        wrong = []
        for d in cuts:
            m = run_method(repo, rng, "match", dict(obj), [d])
            if bool(m) != (lo <= d <= hi):
                wrong.append((d, bool(m)))
        chk.ob("range-denotes-the-interval", site, not wrong, f"pattern {pat!r}: parsed as ({obj['range_from']}, {obj['range_to']}); membership at the cut points {cuts[:4]}..{cuts[-2:]} " + ("agrees with the interval [{}, {}] within 0..{}".format(lo, 'max' if hi == INF_ else hi, mf) if not wrong else f"differs from the interval [{lo}, {'max' if hi == INF_ else hi}] at {wrong[:4]} (address, matched)"), key=f"range|{pat!r}")
    chk.count("range pattern cells", n)


def pairing(chk: Check, repo: Repo) -> None:
    af = repo.cls(M, "AddressFilter")
    want = {"_match_level3": ["main", "middle", "sub"], "_match_level2": ["main", "sub"], "_match_free": ["sub"]}
    for name, comps in want.items():
        f = af.methods[name]
        chk.unit(f)
        rets = [n for n in walk_local(f.node) if isinstance(n, ast.Return)]
        got: list[tuple[int, str]] = []
        shape_ok = len(rets) == 1
        if shape_ok:
            e = rets[0].value
            if isinstance(e, ast.Call) and call_name(e) == "bool" and len(e.args) == 1:
                e = e.args[0]
            terms = e.values if isinstance(e, ast.BoolOp) and isinstance(e.op, ast.And) else [e]
            for t in terms:
                if isinstance(t, ast.Call) and isinstance(t.func, ast.Attribute) and t.func.attr == "match" and isinstance(t.func.value, ast.Subscript) and ast.unparse(t.func.value.value) == "self.level_filters" and isinstance(t.func.value.slice, ast.Constant) and len(t.args) == 1 and isinstance(t.args[0], ast.Attribute) and ast.unparse(t.args[0].value) == "address":
                    got.append((t.func.value.slice.value, t.args[0].attr))
                else:
                    shape_ok = False
        ok = shape_ok and got == list(enumerate(comps))
        chk.ob("level-filter-paired-with-its-component", f.site(), ok, f"{name}: conjunction of {got}; required {list(enumerate(comps))}", key=f"pair|{name}")
    m = af.methods["match"]
    src = ast.unparse(m.node)
    ok = "if len(self.level_filters) == 3:\n                return self._match_level3(address)" in src or all(x in src for x in ("len(self.level_filters) == 3", "self._match_level3(address)", "len(self.level_filters) == 2", "self._match_level2(address)", "self._match_free(address)"))
    chk.ob("matcher-chosen-by-number-of-levels", m.site(), ok, "match dispatches on len(level_filters): 3 -> level3, 2 -> level2, else free", key="pair|dispatch")
    lf = repo.cls(M, "AddressFilter.LevelFilter")
    lm = lf.methods["match"]
    r = [n for n in walk_local(lm.node) if isinstance(n, ast.Return)]
    ok = len(r) == 1 and ast.unparse(r[0].value) in ("any((_range.match(digit) for _range in self.ranges))", "any(_range.match(digit) for _range in self.ranges)")
    chk.ob("level-filter-is-the-union-of-its-ranges", lm.site(), ok, f"LevelFilter.match returns {ast.unparse(r[0].value) if r else '?'}", key="pair|union")
    lp = lf.methods["_parse_pattern"]
    ok = any(isinstance(n, ast.For) and ast.unparse(n.iter) == "pattern.split(',')" for n in walk_local(lp.node)) and any(call_name(c) == "self.ranges.append" for c in calls(lp.node))
    chk.ob("level-filter-is-the-union-of-its-ranges", lp.site(), ok, "LevelFilter parses one Range per comma-separated part", key="pair|split-comma")
    pp = af.methods["_parse_pattern"]
    ok = any(isinstance(n, ast.For) and ast.unparse(n.iter) == "pattern.split('/')" for n in walk_local(pp.node))
    chk.ob("level-filter-paired-with-its-component", pp.site(), ok, "AddressFilter parses one LevelFilter per '/'-separated level, in order", key="pair|split-slash")
    # the component properties the matchers read are the ones the renderer prints in that notation (C01)
    ga = repo.cls("xknx.telegram.address", "GroupAddress")
    sub = ga.methods["sub"]
    chk.unit(sub)
    txt = ast.unparse(sub.node)
    ok = "GroupAddressType.SHORT" in txt and "GroupAddressType.LONG" in txt and "self.raw" in txt
    chk.ob("level-filter-paired-with-its-component", sub.site(), ok, "GroupAddress.sub is the notation's last component (sub / 11-bit sub / raw)", key="pair|sub-notation")


def purity(chk: Check, repo: Repo) -> None:
    af = repo.cls(M, "AddressFilter")
    rng, lf = repo.cls(M, "AddressFilter.Range"), repo.cls(M, "AddressFilter.LevelFilter")
    ga = repo.cls("xknx.telegram.address", "GroupAddress")
    funcs = [af.methods[n] for n in ("match", "_match_level3", "_match_level2", "_match_free")] + [rng.methods["match"], lf.methods["match"]] + [ga.methods[n] for n in ("main", "middle", "sub")]
    allowed_calls = {"fnmatchcase", "parse_device_group_address", "isinstance", "bool", "any", "len", "ConnectionError"}
    for f in funcs:
        chk.unit(f)
        writes = [ast.unparse(n)[:60] for n in walk_local(f.node) if isinstance(n, (ast.Assign, ast.AugAssign, ast.Delete, ast.Global, ast.Nonlocal)) and any(isinstance(t, (ast.Attribute, ast.Subscript)) and isinstance(getattr(t, "ctx", None), (ast.Store, ast.Del)) for t in ast.walk(n)) or isinstance(n, (ast.Global, ast.Nonlocal))]
        mut = [call_name(c) for c in calls(f.node) if isinstance(c.func, ast.Attribute) and c.func.attr in ("append", "extend", "pop", "clear", "update", "remove", "insert", "setdefault", "add", "discard", "sort")]
        foreign = sorted({call_name(c) for c in calls(f.node)} - allowed_calls - {n for n in {call_name(c) for c in calls(f.node)} if n.startswith(("self.", "_range.", "address."))})
        reads = sorted({ast.unparse(n) for n in walk_local(f.node) if isinstance(n, ast.Attribute) and isinstance(n.value, ast.Name) and n.value.id == "self"})
        ok = not writes and not mut and not foreign
        chk.ob("matching-is-a-pure-function-of-pattern-address-notation", f.site(), ok, f"{f.qualname}: attribute writes {writes}, container mutations {mut}, other callees {foreign}; reads {reads}", key=f"pure|{f.qualname}")


def callback_filtering(chk: Check, repo: Repo) -> None:
    """TelegramQueue.Callback.is_within_filter hands the verdict of AddressFilter.match through unchanged: it stores
    nothing (no memo that could outlive an edit of the filter list or a notation switch), reads only the callback's
    configuration, and asks every filter of self.address_filters about the telegram's destination address."""
    cb = repo.cls("xknx.core.telegram_queue", "TelegramQueue.Callback")
    f = cb.methods["is_within_filter"]
    chk.unit(f)
    stores = [ast.unparse(n)[:70] for n in walk_local(f.node) if isinstance(n, (ast.Attribute, ast.Subscript)) and isinstance(n.ctx, (ast.Store, ast.Del))] + [ast.unparse(n) for n in walk_local(f.node) if isinstance(n, (ast.Global, ast.Nonlocal))]
    mut = [call_name(c) for c in calls(f.node) if isinstance(c.func, ast.Attribute) and c.func.attr in ("append", "extend", "pop", "clear", "update", "remove", "insert", "setdefault", "add", "discard", "sort", "__setitem__", "popitem")]
    reads = sorted({n.attr for n in walk_local(f.node) if isinstance(n, ast.Attribute) and isinstance(n.value, ast.Name) and n.value.id == "self"})
    slots = repo.fold(next((st.value for st in cb.node.body if isinstance(st, ast.Assign) and ast.unparse(st.targets[0]) == "__slots__"), ast.Constant(None)), cb.module, cb)
    config = {"_match_all", "_match_outgoing", "address_filters", "group_addresses"}
    extra = sorted(set(reads) - config)
    ok = not stores and not mut and not extra
    chk.ob("matching-is-a-pure-function-of-pattern-address-notation", f.site(), ok, f"is_within_filter: stores {stores}, container mutations {mut}, reads of self beyond the configured filters {extra} (slots {slots})", key="pure|Callback.is_within_filter")
    # the address verdict comes from filter.match(destination) for filter ranging over self.address_filters
    aliases = {"telegram.destination_address"}
    for n in walk_local(f.node):
        if isinstance(n, ast.Assign) and len(n.targets) == 1 and isinstance(n.targets[0], ast.Name) and ast.unparse(n.value) in aliases:
            if sum(1 for m in walk_local(f.node) if isinstance(m, ast.Name) and m.id == n.targets[0].id and isinstance(m.ctx, ast.Store)) == 1:
                aliases.add(n.targets[0].id)
    iter_vars: dict[str, str] = {}
    for n in walk_local(f.node):
        if isinstance(n, ast.For) and isinstance(n.target, ast.Name):
            iter_vars[n.target.id] = ast.unparse(n.iter)
        if isinstance(n, ast.comprehension) and isinstance(n.target, ast.Name):
            iter_vars[n.target.id] = ast.unparse(n.iter)
    sites = [c for c in calls(f.node) if isinstance(c.func, ast.Attribute) and c.func.attr == "match"]
    good = [c for c in sites if isinstance(c.func.value, ast.Name) and iter_vars.get(c.func.value.id) == "self.address_filters" and len(c.args) == 1 and not c.keywords and ast.unparse(c.args[0]) in aliases]
    chk.ob("callback-filter-asks-every-address-filter", f.site(), bool(sites) and len(good) == len(sites), f"is_within_filter: {len(good)} of {len(sites)} `.match` call(s) are `<filter of self.address_filters>.match(telegram.destination_address)`", key="cb|match-sites")
    chk.count("callback filter match sites", len(sites))
    chk.floor("callback filter match sites", len(sites), 1)


def run(chk: Check, repo: Repo) -> None:
    purity(chk, repo)
    callback_filtering(chk, repo)
    pairing(chk, repo)
    range_tables(chk, repo)
    chk.rule("E5 effect census over the matcher's call tree; structural pairing of level filters and address components; E7 cell evaluation of the range parser over abstract pattern forms and every ordering of bounds it can distinguish")
    chk.assume("fnmatchcase is a pure function of its two arguments (fnmatch is not: it folds case through os.path.normcase, which depends on the platform); decimal text denotes its integer (C01)")
