"""C38 — eager group-address decoding never changes what devices see.

 (a) RemoteValue.process: the eagerly decoded value is used iff decoded data exists and its
     transcoder *is* the remote value's own dpt_class; otherwise the remote value decodes the payload
     itself (table over decoded_data None / same transcoder / other transcoder).
 (b) class-table rule: a RemoteValue subclass whose MRO-resolved from_knx is not the generic
     `dpt_class.from_knx(payload)` must have dpt_class None (class attribute, never assigned per
     instance) — otherwise the shortcut in (a) would bypass the override.
 (c) GroupAddressDPT.set_decoded_data stores exactly (transcoder, transcoder.from_knx(payload.value))
     for the transcoder configured for the destination, nothing on decoding errors, and never
     overwrites existing decoded data.
With identity of the transcoder, both branches of (a) compute dpt_class.from_knx(payload).
"""

from __future__ import annotations

import ast

from ..absmachine import AbsMachine, Obj, Outcome, Raise, UNKNOWN, class_isinstance
from ..astx import attr_writes, call_name, calls, method_name, walk_local
from ..cfg import CFG
from ..exctable import ExcTable
from ..explore import Explorer
from ..loader import NOFOLD, AnalysisError, Repo
from ..report import Check, canon

RV = "xknx.remote_value.remote_value"


def table_store(chk: Check, repo: Repo) -> None:
    """"The configured type" of an address is the last one assigned to it: the table is a plain dict keyed by the
    address's raw value — created empty (__init__, clear), written only by `self._ga_dpts[<address>.raw] = <transcoder>`
    in set() (so a later set() replaces an earlier entry), and read by `self._ga_dpts.get(<address>.raw)` in get()."""
    GD = "xknx.core.group_address_dpt"
    ws = [w for w in attr_writes(repo, "_ga_dpts", include_mutators=True) if w.func.module.name == GD]
    chk.count("writers of the address/type table", len(ws))
    chk.floor("writers of the address/type table", len(ws), 3)
    for w in ws:
        q, st = w.func.qualname, w.stmt
        ok = False
        if q in ("GroupAddressDPT.__init__", "GroupAddressDPT.clear"):
            v = st.value if isinstance(st, (ast.Assign, ast.AnnAssign)) else None
            ok = isinstance(v, ast.Dict) and not v.keys
        elif q == "GroupAddressDPT.set" and isinstance(st, ast.Assign) and len(st.targets) == 1 and isinstance(st.targets[0], ast.Subscript):
            t = st.targets[0]
            key_ok = ast.unparse(t.value) == "self._ga_dpts" and isinstance(t.slice, ast.Attribute) and t.slice.attr == "raw" and isinstance(t.slice.value, ast.Name)
            val_ok = isinstance(st.value, ast.Name)
            if key_ok and val_ok:
                from ..astx import inline_locals
                kdef = ast.unparse(inline_locals(w.func.node, t.slice.value))
                vdef = [n for n in ast.walk(w.func.node) if isinstance(n, ast.NamedExpr) and n.target.id == st.value.id] + [n for n in walk_local(w.func.node) if isinstance(n, ast.Assign) and len(n.targets) == 1 and isinstance(n.targets[0], ast.Name) and n.targets[0].id == st.value.id]
                ok = kdef.startswith("parse_device_group_address(") and len(vdef) == 1 and isinstance(vdef[0].value, ast.Call) and call_name(vdef[0].value) == "DPTBase.parse_transcoder"
        elif q == "GroupAddressDPT.set" and any(isinstance(x, ast.Call) and call_name(x) == "self._ga_dpts.pop" for x in ast.walk(st)):
            # removing the entry of the address being (re)configured - a type without a transcoder leaves no decoder behind
            c_ = next(x for x in ast.walk(st) if isinstance(x, ast.Call) and call_name(x) == "self._ga_dpts.pop")
            ok = bool(c_.args) and isinstance(c_.args[0], ast.Attribute) and c_.args[0].attr == "raw" and len(c_.args) == 2
        chk.ob("last-assignment-is-the-configured-type", w.func.site(st), ok, f"{q}: `{canon(st)[:90]}`" + ("" if ok else " — not one of: empty dict in __init__/clear, `self._ga_dpts[<parsed address>.raw] = <parsed transcoder>` in set (an entry written any other way, e.g. merged so that old entries win, leaves telegrams decoded by a type that is no longer configured)"), key=f"table|{q}|{w.kind}")
    # every (re)configuration of an address replaces what the table held for it: on each path through one iteration of
    # set() past the address parse the entry is either stored or removed - `continue` for a type without a transcoder
    # would keep decoding with the type the address had before
    sf = repo.func(GD, "GroupAddressDPT.set")
    scfg = CFG(sf.node)
    touch = [n.id for n in scfg.nodes if n.kind == "stmt" and n.ast is not None and ((isinstance(n.ast, ast.Assign) and isinstance(n.ast.targets[0], ast.Subscript) and ast.unparse(n.ast.targets[0].value) == "self._ga_dpts") or any(call_name(c) == "self._ga_dpts.pop" for c in calls(n.ast)))]
    parsed = [n.id for n in scfg.nodes if n.kind == "test" and n.ast is not None and "parse_transcoder" in ast.unparse(n.ast)]
    heads = [n.id for n in scfg.nodes if n.kind == "for"]
    ok_r = bool(touch) and bool(parsed) and bool(heads) and all(scfg.all_paths_hit(p_, touch, heads + [scfg.exit], edge_ok=scfg.normal_only, include_start=False) for p_ in parsed)
    chk.ob("reconfigured-address-keeps-no-stale-type", sf.site(), ok_r, "set(): past the transcoder lookup every path of an iteration stores or removes the address's entry" if ok_r else "set(): an address re-assigned to a type without a transcoder keeps its previous decoder - telegrams to it still carry the old type's value", key="table|no-stale")
    # "telegrams to it carry the value" - every telegram the consumer takes out of the queue, incoming or outgoing: the
    # eager decode precedes the direction dispatch (a decode inside the incoming branch leaves the telegrams this process
    # sends without a decoded value)
    tc = repo.func("xknx.core.telegram_queue", "TelegramQueue._telegram_consumer")
    chk.unit(tc)
    tcfg = CFG(tc.node)
    dec = [n.id for n in tcfg.nodes if n.ast is not None and n.kind == "stmt" and any(call_name(c).endswith("set_decoded_data") for c in calls(n.ast))]
    uses = [n.id for n in tcfg.nodes if n.ast is not None and n.kind == "stmt" and any(call_name(c) in ("self.process_telegram_incoming", "self.process_telegram_outgoing", "self.outgoing_queue.put_nowait") and c.args and not (isinstance(c.args[0], ast.Constant) and c.args[0].value is None) for c in calls(n.ast))]
    ok_d = bool(dec) and len(uses) >= 2 and all(any(tcfg.dominates(d_, u_) for d_ in dec) for u_ in uses)
    chk.ob("every-dequeued-telegram-is-decoded", tc.site(), ok_d, f"_telegram_consumer: set_decoded_data precedes the processing of incoming and the hand-over of outgoing telegrams ({len(uses)} uses)" if ok_d else "_telegram_consumer decodes on some paths only: telegrams of the other direction carry no decoded value", key="consumer|decode-dominates")
    g = repo.func(GD, "GroupAddressDPT.get")
    chk.unit(g)
    rets = [n for n in walk_local(g.node) if isinstance(n, ast.Return)]
    ap = g.node.args.args[1].arg
    ok = len(rets) == 1 and ast.unparse(rets[0].value) in (f"self._ga_dpts.get({ap}.raw)", f"self._ga_dpts.get({ap}.raw, None)")
    chk.ob("last-assignment-is-the-configured-type", g.site(), ok, f"get() returns `{ast.unparse(rets[0].value) if rets else '?'}` (same key as set() stores under)", key="table|get")


def table_is_total(chk: Check, repo: Repo) -> None:
    """an invalid table entry is skipped, it does not cost the valid ones their decoder: GroupAddressDPT.set() raises
    for no table of DPTParsable values (E1 may-raise analysis) - an exception in the middle of the loop leaves the rest
    of the table unconfigured, and telegrams to those addresses carry no decoded value"""
    from .e1_common import check_entry, engine, finish
    mr = engine(repo)
    st = repo.func("xknx.core.group_address_dpt", "GroupAddressDPT.set")
    check_entry(chk, mr, st, (), rule="invalid-table-entries-are-skipped")
    finish(chk, mr)


def run(chk: Check, repo: Repo) -> None:
    table_store(chk, repo)
    table_is_total(chk, repo)
    base = repo.cls(RV, "RemoteValue")
    proc = repo.func(RV, "RemoteValue.process")
    chk.unit(proc)
    cfg = CFG(proc.node)
    exc = ExcTable(repo)
    own = Obj("DPTClass", "own")
    dest = Obj("GroupAddress", "ga")
    p0 = proc.node.args.args[1].arg
    for label, dd in (("none", None), ("same transcoder", Obj("TelegramDecodedData", "dd", (("transcoder", own), ("value", Obj("Value", "eager"))))), ("other transcoder", Obj("TelegramDecodedData", "dd", (("transcoder", Obj("DPTClass", "other")), ("value", Obj("Value", "eager")))))):
        def cm(c: ast.Call, env):
            n = call_name(c)
            if n == "self.from_knx":
                return [Outcome("OWN_DECODE", Obj("Value", "own")), Outcome("OWN_DECODE:error", Raise("ConversionError"))]
            if n == "self.group_addresses":
                return [Outcome(None, (dest,))]
            if n.startswith("logger.") or n.endswith("update_received"):
                return [Outcome(None, None)]
            return None
        am = AbsMachine(cfg, exc, cm)
        am.isinstance_fn = class_isinstance(repo)
        env = {f"{p0}.destination_address": dest, f"{p0}.payload": Obj("GroupValueWrite", "p", (("value", Obj("DPTArray", "raw")),)), f"{p0}.decoded_data": dd, "self.dpt_class": own, "self._value": None, "self.after_update_cb": None}
        paths = Explorer(cfg, repo, am.step).run(cfg.entry, [], env)
        used = set()
        for p in paths:
            tr = [t for t in p.env.get("trace", ()) if t.startswith("OWN_DECODE")]
            v = p.env.get("self._value")  # what ends up stored as the remote value's state (initially None), not a local's name
            used.add(("own" if tr else "eager", repr(v) if not (tr and tr[0].endswith("error")) else "error"))
        want = {("eager", repr(Obj("Value", "eager")))} if label == "same transcoder" else {("own", repr(Obj("Value", "own"))), ("own", "error")}
        chk.ob("shortcut-iff-same-transcoder", proc.site(), used == want, f"decoded_data: {label}: value source {sorted(used)}; reference {sorted(want)}", key=f"process|{label}")
    # identity comparison, not equality
    tests = [n.ast for n in cfg.nodes if n.kind == "test" and "transcoder" in ast.unparse(n.ast)]
    chk.ob("transcoder-identity", proc.site(), len(tests) == 1 and isinstance(tests[0], ast.Compare) and isinstance(tests[0].ops[0], ast.Is) and "self.dpt_class" in (ast.unparse(tests[0].comparators[0]), ast.unparse(tests[0].left)), f"transcoder test: {[ast.unparse(t) for t in tests]}", key="transcoder-identity")
    # generic from_knx is dpt_class.from_knx(payload)
    gen = repo.func(RV, "RemoteValue.from_knx")
    chk.unit(gen)
    rets = [n for n in walk_local(gen.node) if isinstance(n, ast.Return)]
    chk.ob("generic-decode", gen.site(), len(rets) == 1 and ast.unparse(rets[0].value) == f"self.dpt_class.from_knx({gen.node.args.args[1].arg})", "RemoteValue.from_knx returns self.dpt_class.from_knx(payload)", key="generic-decode")

    # (b)
    from .common_rules import override_implies_no_dpt_class
    override_implies_no_dpt_class(chk, repo)

    # (c)
    sd = repo.func("xknx.core.group_address_dpt", "GroupAddressDPT.set_decoded_data")
    chk.unit(sd)
    cfg2 = CFG(sd.node)
    t0 = sd.node.args.args[1].arg
    tr_obj = Obj("DPTClass", "configured")
    for dest_cls in ("GroupAddress", "InternalGroupAddress"):
      for label, existing, payload_cls, configured, outcome in (
          ("fresh write, configured, decodes", None, "GroupValueWrite", True, "ok"),
          ("fresh write, configured, decode error", None, "GroupValueWrite", True, "err"),
          ("fresh response, configured", None, "GroupValueResponse", True, "ok"),
          ("already decoded", Obj("TelegramDecodedData", "old"), "GroupValueWrite", True, "ok"),
          ("read request", None, "GroupValueRead", True, "ok"),
          ("not configured", None, "GroupValueWrite", False, "ok"),
      ):
          def cm2(c: ast.Call, env):
              n = call_name(c)
              if n == "self.get":
                  return [Outcome(None, tr_obj if configured else None)]
              if isinstance(c.func, ast.Attribute) and c.func.attr == "from_knx" and box["am"].ev(c.func.value, env, {}) == tr_obj:  # the configured transcoder, whatever the local is called
                  arg = ast.unparse(c.args[0]) if c.args else ""
                  return [Outcome(f"DECODE({arg})", Obj("Value", "v"))] if outcome == "ok" else [Outcome(f"DECODE({arg})", Raise("ConversionError"))]
              if n == "TelegramDecodedData":
                  am_ = box["am"]
                  return [Outcome(None, Obj("TelegramDecodedData", "new", tuple((f"arg{i}", am_.ev(a, env, {})) for i, a in enumerate(c.args)) + tuple((k.arg, am_.ev(k.value, env, {})) for k in c.keywords)))]
              if n.startswith("_GA_DPT_LOGGER") or n.endswith(".add") or n.endswith("dpt_name") or (isinstance(c.func, ast.Name) and any(isinstance(a, ast.Assign) and len(a.targets) == 1 and isinstance(a.targets[0], ast.Name) and a.targets[0].id == c.func.id and "LOGGER" in ast.unparse(a.value).upper() for a in ast.walk(sd.node))):
                  return [Outcome(None, None)]
              return None
          box = {}
          am2 = AbsMachine(cfg2, exc, cm2)
          am2.isinstance_fn = class_isinstance(repo)
          box["am"] = am2
          env = {f"{t0}.decoded_data": existing, f"{t0}.payload": Obj(payload_cls, "p"), f"{t0}.destination_address": Obj(dest_cls, "ga"), "self.ga_decoding_error": ()}
          paths = Explorer(cfg2, repo, am2.step).run(cfg2.entry, [], env)
          finals = {(repr(p.env.get(f"{t0}.decoded_data")), tuple(t for t in p.env.get("trace", ()) if t.startswith("DECODE")), p.end_kind) for p in paths}
          stores = {repr(dict(p.env.get(f"{t0}.decoded_data").fields)) for p in paths if isinstance(p.env.get(f"{t0}.decoded_data"), Obj) and p.env.get(f"{t0}.decoded_data").tag == "new"}
          if existing is not None:
              ok = finals == {(repr(existing), (), "exit")}
          elif payload_cls == "GroupValueRead" or not configured:
              ok = finals == {("None", (), "exit")}
          elif outcome == "err":
              ok = all(f[0] == "None" and f[2] == "exit" for f in finals) and len(finals) == 1
          else:
              ok = len(finals) == 1 and all(f[1] == (f"DECODE({t0}.payload.value)",) and f[2] == "exit" for f in finals) and stores == {repr({"arg0": tr_obj, "arg1": Obj("Value", "v")})} or stores == {repr({"transcoder": tr_obj, "value": Obj("Value", "v")})}
          chk.ob("eager-decode-store", sd.site(), ok, f"dest={dest_cls} {label}: final (decoded_data, decodes, end) = {sorted(finals)}; stored {sorted(stores)}", key=f"store|{dest_cls}|{label}")
    # dataclass field order of TelegramDecodedData: (transcoder, value)
    tdd = repo.cls("xknx.telegram.telegram", "TelegramDecodedData")
    chk.ob("decoded-data-fields", sd.site(), list(tdd.annotations)[:2] == ["transcoder", "value"], f"TelegramDecodedData fields {list(tdd.annotations)}", key="decoded-data-fields")
    chk.rule("E7 tables of RemoteValue.process and GroupAddressDPT.set_decoded_data (abstract path enumeration); class-table rule over all RemoteValue subclasses: from_knx override implies dpt_class None")
    chk.assume("DPT from_knx is a pure function of the payload (same transcoder object => same value)")
