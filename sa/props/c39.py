"""C39 — device commands loop back to the state they requested (structural part).

 (a) finite loop-back tables (E7 cell evaluation over the extracted conditions, no repository code runs): for
     RemoteValueSwitch, RemoteValueUpDown, RemoteValueStep, every value x invert flag: from_knx(to_knx(v)) == v.
 (b) affine inverse: RemoteValueScaling._calc_to_knx / _calc_from_knx and RemoteValueSetpointShift's step conversion
     are extracted as affine maps v -> alpha*v + beta with coefficients in the Laurent polynomial ring over the
     configuration symbols (range_from, delta / step); from∘to must be the identity (rounding aside), and both
     directions receive the same configuration attributes in the same roles.
 (c) scaled values are rounded, never truncated with int(<true division>) on any remote-value encode path.
 (d) RemoteValue.set does not write the state itself: `_value` is written only by update_value, which set() does not
     reach — the state follows the processed outgoing telegram.
 (e) Climate: set_target_temperature requests offset = target - base; set_setpoint_shift reads the base before it
     changes the shift and writes base + offset as the new target; symbolically base + (target - base) == target.
Does not decide the numeric loop-back for every configuration (clamping, rounding to the datapoint's resolution).
"""

from __future__ import annotations

import ast
from fractions import Fraction
from itertools import product
from typing import Any

from ..astx import attr_writes, call_name, calls, walk_local
from ..cfg import CFG
from ..loader import AnalysisError, Repo
from ..report import Check, canon

RV = "xknx.remote_value"


# ------------------------------------------------------------------ (a) cell evaluation
class _Raise(Exception):
    pass


def cell_eval(fn: ast.FunctionDef, env: dict) -> Any:
    def ev(e: ast.AST) -> Any:
        if isinstance(e, ast.Constant):
            return e.value
        if isinstance(e, ast.Name):
            if e.id in env:
                return env[e.id]
            raise AnalysisError(f"cell evaluation: name {e.id}")
        if isinstance(e, ast.Attribute):
            txt = ast.unparse(e)
            if txt in env:
                return env[txt]
            if isinstance(e.value, ast.Attribute) and ast.unparse(e.value) in ("self.Direction",):
                return ("member", e.attr)
            base = ev(e.value)
            if isinstance(base, tuple) and base[0] in ("DPTBinary", "DPTArray") and e.attr == "value":
                return base[1]
            raise AnalysisError(f"cell evaluation: attribute {txt}")
        if isinstance(e, ast.Compare) and len(e.ops) == 1:
            a, b = ev(e.left), ev(e.comparators[0])
            if isinstance(e.ops[0], (ast.Eq, ast.Is)):
                return a == b
            if isinstance(e.ops[0], (ast.NotEq, ast.IsNot)):
                return a != b
            raise AnalysisError("cell evaluation: comparison")
        if isinstance(e, ast.IfExp):
            return ev(e.body) if ev(e.test) else ev(e.orelse)
        if isinstance(e, ast.UnaryOp) and isinstance(e.op, ast.Not):
            return not ev(e.operand)
        if isinstance(e, ast.BinOp) and isinstance(e.op, ast.BitXor):
            return bool(ev(e.left)) ^ bool(ev(e.right))
        if isinstance(e, ast.BoolOp):
            vals = [ev(v) for v in e.values]
            return all(vals) if isinstance(e.op, ast.And) else any(vals)
        if isinstance(e, ast.Call):
            n = call_name(e)
            if n in ("DPTBinary", "DPTArray") and len(e.args) == 1:
                v = ev(e.args[0])
                return (n, int(v) if isinstance(v, bool) else v)
            if n == "isinstance" and len(e.args) == 2:
                v = ev(e.args[0])
                t = ast.unparse(e.args[1])
                return {"bool": isinstance(v, bool), "DPTBinary": isinstance(v, tuple) and v[0] == "DPTBinary", "DPTArray": isinstance(v, tuple) and v[0] == "DPTArray"}.get(t, False)
            if n == "bool" and len(e.args) == 1:
                return bool(ev(e.args[0]))
            raise AnalysisError(f"cell evaluation: call {n}")
        raise AnalysisError(f"cell evaluation: {type(e).__name__}")

    def block(stmts) -> Any:
        for st in stmts:
            if isinstance(st, ast.Expr) and isinstance(st.value, ast.Constant):
                continue
            if isinstance(st, ast.Return):
                return ("ret", ev(st.value))
            if isinstance(st, ast.Raise):
                raise _Raise()
            if isinstance(st, ast.If):
                r = block(st.body if ev(st.test) else st.orelse)
                if r is not None:
                    return r
                continue
            raise AnalysisError(f"cell evaluation: statement {type(st).__name__}")
        return None
    r = block(fn.body)
    return r[1] if r else None


def loopback_table(chk: Check, repo: Repo, mod: str, cname: str, values: list) -> None:
    cls = repo.cls(mod, cname)
    tk, fk = cls.methods.get("to_knx"), cls.methods.get("from_knx")
    if tk is None or fk is None:
        raise AnalysisError(f"{cname}: to_knx / from_knx not found")
    chk.unit(tk); chk.unit(fk)
    vp = tk.node.args.args[1].arg
    pp = fk.node.args.args[1].arg
    for v, inv in product(values, (False, True)):
        try:
            payload = cell_eval(tk.node, {vp: v, "self.invert": inv})
            back = cell_eval(fk.node, {pp: payload, "self.invert": inv})
            ok, detail = back == v, f"to_knx -> {payload} -> from_knx -> {back}"
        except _Raise:
            ok, detail = False, "refused"
        chk.ob("command-loops-back", tk.site(), ok, f"{cname} value={v} invert={inv}: {detail}", key=f"loop|{cname}|{v}|{inv}")


# ------------------------------------------------------------------ (b) affine maps over Laurent polynomials
class LP:
    """Laurent polynomial with Fraction coefficients: {((sym, exp), ...): coeff}"""

    def __init__(self, terms: dict | None = None) -> None:
        self.t = {k: v for k, v in (terms or {}).items() if v != 0}

    @staticmethod
    def const(c) -> "LP":
        return LP({(): Fraction(c)})

    @staticmethod
    def sym(s: str) -> "LP":
        return LP({((s, 1),): Fraction(1)})

    def __add__(self, o: "LP") -> "LP":
        t = dict(self.t)
        for k, v in o.t.items():
            t[k] = t.get(k, 0) + v
        return LP(t)

    def __neg__(self) -> "LP":
        return LP({k: -v for k, v in self.t.items()})

    def __sub__(self, o: "LP") -> "LP":
        return self + (-o)

    def __mul__(self, o: "LP") -> "LP":
        t: dict = {}
        for k1, v1 in self.t.items():
            for k2, v2 in o.t.items():
                d = dict(k1)
                for s, e in k2:
                    d[s] = d.get(s, 0) + e
                k = tuple(sorted((s, e) for s, e in d.items() if e != 0))
                t[k] = t.get(k, 0) + v1 * v2
        return LP(t)

    def inv(self) -> "LP":
        if len(self.t) != 1:
            raise AnalysisError("division by a sum (introduce a symbol for it)")
        (k, v), = self.t.items()
        return LP({tuple((s, -e) for s, e in k): 1 / v})

    def __eq__(self, o: object) -> bool:
        return isinstance(o, LP) and self.t == o.t

    def __repr__(self) -> str:
        return " + ".join(f"{v}*" + "*".join(f"{s}^{e}" for s, e in k) if k else str(v) for k, v in sorted(self.t.items())) or "0"


def affine(e: ast.AST, var: str, env: dict) -> tuple[LP, LP]:
    """(alpha, beta) with e = alpha*var + beta; round() is transparent."""
    if isinstance(e, ast.Constant) and isinstance(e.value, (int, float)):
        return LP(), LP.const(Fraction(e.value).limit_denominator(10 ** 9))
    if isinstance(e, ast.Name):
        if e.id == var:
            return LP.const(1), LP()
        if e.id in env:
            return env[e.id]
        return LP(), LP.sym(e.id)
    if isinstance(e, ast.Attribute):
        return LP(), LP.sym(ast.unparse(e))
    if isinstance(e, ast.Call) and call_name(e) in ("round", "int", "float") and len(e.args) == 1:
        return affine(e.args[0], var, env)
    if isinstance(e, ast.Call) and call_name(e) in ("min", "max") and len(e.args) == 2:
        # a clamp against a constant is the identity inside the range (the nearest-value clause is not decided)
        non_const = [a for a in e.args if not isinstance(a, ast.Constant)]
        if len(non_const) == 1:
            return affine(non_const[0], var, env)
    if isinstance(e, ast.BinOp):
        a1, b1 = affine(e.left, var, env)
        a2, b2 = affine(e.right, var, env)
        if isinstance(e.op, ast.Add):
            return a1 + a2, b1 + b2
        if isinstance(e.op, ast.Sub):
            return a1 - a2, b1 - b2
        if isinstance(e.op, ast.Mult):
            if a1.t and a2.t:
                raise AnalysisError("non-affine product")
            return (a1 * b2 + a2 * b1), b1 * b2
        if isinstance(e.op, ast.Div):
            if a2.t:
                raise AnalysisError("division by the variable")
            i = b2.inv()
            return a1 * i, b1 * i
    raise AnalysisError(f"affine extraction: {ast.unparse(e)[:50]}")


def single_return(fn) -> ast.AST:
    r = [n for n in walk_local(fn.node) if isinstance(n, ast.Return)]
    if len(r) != 1:
        raise AnalysisError(f"{fn.qualname}: expected one return")
    return r[0].value


def local_env(fn, var: str) -> dict:
    env: dict = {}
    for st in fn.node.body:
        if isinstance(st, ast.Assign) and len(st.targets) == 1 and isinstance(st.targets[0], ast.Name):
            if any(isinstance(x, ast.Name) and (x.id == var or (x.id in env and env[x.id][0].t)) for x in ast.walk(st.value)):
                env[st.targets[0].id] = affine(st.value, var, env)  # an intermediate of the value being converted
            else:
                # a combination of configuration values is one symbol (delta = range_to - range_from)
                env[st.targets[0].id] = (LP(), LP.sym(f"({ast.unparse(st.value)})"))
    return env


def scaling(chk: Check, repo: Repo) -> None:
    cls = repo.cls(f"{RV}.remote_value_scaling", "RemoteValueScaling")
    t, f = cls.methods["_calc_to_knx"], cls.methods["_calc_from_knx"]
    chk.unit(t); chk.unit(f)
    tv, fv = t.node.args.args[-1].arg, f.node.args.args[-1].arg
    a1, b1 = affine(single_return(t), tv, local_env(t, tv))
    a2, b2 = affine(single_return(f), fv, local_env(f, fv))
    comp_a, comp_b = a2 * a1, a2 * b1 + b2
    ok = comp_a == LP.const(1) and comp_b == LP()
    chk.ob("scaling-directions-are-inverse", t.site(), ok, f"_calc_to_knx: v -> ({a1})*v + ({b1}); _calc_from_knx: r -> ({a2})*r + ({b2}); composition: ({comp_a})*v + ({comp_b})", key="scaling|inverse")
    # same configuration in the same roles
    tk, fk = cls.methods["to_knx"], cls.methods["from_knx"]
    ct = [c for c in calls(tk.node) if call_name(c) == "self._calc_to_knx"]
    cf = [c for c in calls(fk.node) if call_name(c) == "self._calc_from_knx"]
    ok2 = len(ct) == 1 and len(cf) == 1 and [ast.unparse(x) for x in ct[0].args[:2]] == [ast.unparse(x) for x in cf[0].args[:2]] == ["self.range_from", "self.range_to"] and [a.arg for a in t.node.args.args[:2]] == [a.arg for a in f.node.args.args[:2]]
    chk.ob("scaling-directions-share-the-range", tk.site(), ok2, f"to_knx passes {[ast.unparse(x) for x in ct[0].args[:2]] if ct else '?'}; from_knx passes {[ast.unparse(x) for x in cf[0].args[:2]] if cf else '?'}", key="scaling|args")


def setpoint_shift(chk: Check, repo: Repo) -> None:
    cls = repo.cls(f"{RV}.remote_value_setpoint_shift", "RemoteValueSetpointShift")
    tk, fk = cls.methods["to_knx"], cls.methods["from_knx"]
    chk.unit(tk); chk.unit(fk)
    # the count handed to the 1-count encoder (through a local or directly), and the decoder's return that scales by the step
    enc_calls = [c for c in calls(tk.node) if call_name(c) == "DPTValue1Count.to_knx" and len(c.args) == 1]
    conv = []
    for c in enc_calls:
        a = c.args[0]
        if isinstance(a, ast.Name):
            conv += [n for n in walk_local(tk.node) if isinstance(n, ast.Assign) and len(n.targets) == 1 and isinstance(n.targets[0], ast.Name) and n.targets[0].id == a.id]
        else:
            conv.append(ast.Assign(targets=[ast.Name(id="_", ctx=ast.Store())], value=a))
    back = [n for n in walk_local(fk.node) if isinstance(n, ast.Return) and n.value is not None and any(isinstance(x, ast.Attribute) and x.attr == "setpoint_shift_step" for x in ast.walk(n.value))]
    if len(conv) != 1 or len(back) != 1:
        raise AnalysisError("RemoteValueSetpointShift: step conversion not found")
    raw_names = {n.targets[0].id for n in walk_local(fk.node) if isinstance(n, ast.Assign) and len(n.targets) == 1 and isinstance(n.targets[0], ast.Name) and isinstance(n.value, ast.Call) and call_name(n.value).endswith(".from_knx")}
    raw_in_back = sorted({x.id for x in ast.walk(back[0].value) if isinstance(x, ast.Name) and x.id in raw_names})
    if len(raw_in_back) != 1:
        raise AnalysisError("RemoteValueSetpointShift.from_knx: the decoded count is not a single local")
    a1, b1 = affine(conv[0].value, tk.node.args.args[1].arg, {})
    quant = [c for c in calls(back[0]) if call_name(c) == "round" and len(c.args) > 1]
    try:
        a2, b2 = affine(back[0].value, raw_in_back[0], {})
        ok = not quant and a2 * a1 == LP.const(1) and (a2 * b1 + b2) == LP()
        detail = f"to_knx: v -> ({a1})*v + ({b1}); from_knx: r -> ({a2})*r + ({b2})" + (f"; but the decoder quantises with `{ast.unparse(quant[0])}` independently of the step" if quant else "")
    except AnalysisError as err:
        ok, detail = False, f"from_knx `{ast.unparse(back[0].value)}` is not the inverse affine map ({err})"
    chk.ob("setpoint-shift-directions-are-inverse", tk.site(), ok, detail, key="shift|inverse")


def truncation_lint(chk: Check, repo: Repo) -> None:
    n = 0
    for f in repo.all_functions():
        if not f.module.name.startswith(RV) or f.name not in ("to_knx", "_calc_to_knx"):
            continue
        n += 1
        bad = [c for c in calls(f.node) if call_name(c) == "int" and c.args and any(isinstance(x, ast.BinOp) and isinstance(x.op, ast.Div) for x in ast.walk(c.args[0]))]
        chk.ob("scaled-command-is-rounded-not-truncated", f.site(), not bad, f"{f.qualname}: " + ("no int(<true division>)" if not bad else f"`{ast.unparse(bad[0])}` truncates toward zero: the device ends one step off the requested value"), key=f"trunc|{f.qualname}")
    chk.floor("remote value encoders linted", n, 10)


def deferred_state(chk: Check, repo: Repo) -> None:
    ws = [w for w in attr_writes(repo, "_value", include_mutators=False) if w.func.module.name.startswith(RV) and w.receiver == "self"]
    owners = sorted({w.func.qualname for w in ws})
    chk.ob("state-follows-the-processed-telegram", "xknx/remote_value", set(owners) <= {"RemoteValue.__init__", "RemoteValue.value", "RemoteValue.process"} and "RemoteValue.process" in owners, f"writers of RemoteValue._value: {owners} (constructor, the explicit `value` setter, and process() of a telegram)", key="defer|writers")
    st = repo.func(f"{RV}.remote_value", "RemoteValue.set")
    chk.unit(st)
    reach = {call_name(c) for c in calls(st.node)}
    sr = repo.func(f"{RV}.remote_value", "RemoteValue.send_raw")
    reach |= {call_name(c) for c in calls(sr.node)}
    direct = [n for f_ in (st, sr) for n in walk_local(f_.node) if isinstance(n, (ast.Assign, ast.AugAssign)) and any(isinstance(t, ast.Attribute) and t.attr in ("_value", "value") and isinstance(t.ctx, ast.Store) for t in ast.walk(n))]
    chk.ob("state-follows-the-processed-telegram", st.site(), "self.update_value" not in reach and "self.process" not in reach and not direct and "self.xknx.telegrams.put_nowait" in reach, f"set() -> send_raw() calls {sorted(x for x in reach if x.startswith('self.'))}: queues the telegram, does not update the value itself", key="defer|set")


def clamp_methods(chk: Check, repo: Repo, mod: str, cname: str) -> dict[str, str]:
    """methods of the class that are clamps: (value, lo, hi) -> lo only where value < lo, hi only where value > hi, else
    value.  Decided on the CFG: every return is one of the three parameters, a bound only under its comparison."""
    out: dict[str, str] = {}
    cls = repo.cls(mod, cname)
    for name, f in cls.methods.items():
        ps = [a.arg for a in f.node.args.args[1:]]
        if len(ps) != 3:
            continue
        c = CFG(f.node)
        rets = [n for n in c.nodes if n.kind == "stmt" and isinstance(n.ast, ast.Return)]
        if not rets or c.falls_off_end() or not all(isinstance(r.ast.value, ast.Name) and r.ast.value.id in ps for r in rets):
            continue
        v, lo, hi = ps
        facts = c.must_facts()
        def under(nid: int, texts: set[str]) -> bool:
            return any((t, True) in facts.get(nid, frozenset()) for t in texts)
        ok = True
        seen_plain = False
        for r in rets:
            rid = r.ast.value.id
            if rid == v:
                seen_plain = True
            elif rid == lo:
                ok &= under(r.id, {f"{v} < {lo}", f"{lo} > {v}"})
            elif rid == hi:
                ok &= under(r.id, {f"{v} > {hi}", f"{hi} < {v}"})
        if len({r.ast.value.id for r in rets}) < 2:
            continue  # not a clamp at all (identity / constant)
        chk.unit(f)
        chk.ob("clamp-returns-a-bound-only-beyond-it", f.site(), ok and seen_plain, f"{cname}.{name}({v}, {lo}, {hi}): returns {sorted({r.ast.value.id for r in rets})}; a bound is returned only under its comparison", key=f"clamp|{cname}.{name}")
        if ok and seen_plain:
            out[name] = v
    return out


def cover_fallback(chk: Check, repo: Repo) -> None:
    """Cover.set_position without a position address: the direction table over the ordering of requested and current
    position (abstract path enumeration over the CFG; the tests are decided per cell, nothing runs)."""
    from ..explore import Explorer
    f = repo.func("xknx.devices.cover", "Cover.set_position")
    chk.unit(f)
    cfg = CFG(f.node)
    param = f.node.args.args[1].arg
    CUR = "self.travelcalculator.current_position()"
    OPEN, CLOSED = "self.travelcalculator.position_open", "self.travelcalculator.position_closed"
    ORD = {"lt": (0, 1), "eq": (1, 1), "gt": (1, 0)}

    def decide(e: ast.AST, cell: tuple) -> bool | None:
        kind, sub = cell[0], cell[1]
        t = ast.unparse(e)
        if t == "self.position_target.writable":
            return False
        if t == "self.is_traveling()":
            return len(cell) > 2 and cell[2] == "traveling"
        if t == "self.supports_stop":
            return True
        if isinstance(e, ast.Compare) and len(e.ops) == 1:
            l, r, op = ast.unparse(e.left), ast.unparse(e.comparators[0]), e.ops[0]
            if {l, r} == {CUR, "None"} and isinstance(op, (ast.Is, ast.IsNot, ast.Eq, ast.NotEq)):
                return (kind == "unknown") == isinstance(op, (ast.Is, ast.Eq))
            if {l, r} == {param, CUR}:
                if kind != "known":
                    raise AnalysisError("Cover.set_position compares against an unknown current position")
                p_, c_ = ORD[sub]
                a, b = (p_, c_) if l == param else (c_, p_)
                table = {ast.Lt: a < b, ast.Gt: a > b, ast.LtE: a <= b, ast.GtE: a >= b, ast.Eq: a == b, ast.NotEq: a != b}
                if type(op) in table:
                    return table[type(op)]
            for end, nm in ((OPEN, "open"), (CLOSED, "closed")):
                if {l, r} == {param, end} and isinstance(op, (ast.Eq, ast.NotEq)):
                    return (sub == nm) == isinstance(op, ast.Eq)
        return None

    def step(node, env):
        if node.kind == "test":
            v = decide(cfg.symbolic(node.id, node.ast), env["cell"])
            if v is None:
                return None
            return [("true" if v else "false", env)]
        if node.kind == "stmt" and node.ast is not None:
            acts = []
            for x in ast.walk(node.ast):
                if isinstance(x, ast.Call):
                    n = call_name(x)
                    if n in ("self.updown.up", "self.updown.down"):
                        acts.append(n.rsplit(".", 1)[1].upper())
                    elif n == "self._start_position_update":
                        tp = next((k.value for k in x.keywords if k.arg == "target_position"), x.args[0] if x.args else None)
                        acts.append("TRAVEL_TO_REQUESTED" if tp is not None and ast.unparse(cfg.symbolic(node.id, tp)) == param else "TRAVEL_TO_OTHER")
                    elif n == "self.position_target.set":
                        acts.append("POSITION_TELEGRAM")
                    elif n == "self.stop":
                        acts.append("STOP")
                    elif n == "self._start_auto_stopper":
                        acts.append("AUTO_STOP")
            if acts:
                e2 = dict(env); e2["acts"] = env["acts"] + tuple(acts)
                return [(lab, e2) for lab in sorted({l for _, l in node.succ if l != "exc"})]
        return None
    reference = {
        ("known", "lt"): ("UP", "TRAVEL_TO_REQUESTED", "AUTO_STOP"), ("known", "gt"): ("DOWN", "TRAVEL_TO_REQUESTED", "AUTO_STOP"),
        # at the requested position: nothing to send for a resting cover; a traveling one is only passing by and is stopped
        ("known", "eq", "resting"): (), ("known", "eq", "traveling"): ("STOP",),
        ("unknown", "open"): ("UP", "TRAVEL_TO_REQUESTED"), ("unknown", "closed"): ("DOWN", "TRAVEL_TO_REQUESTED"), ("unknown", "other"): (),
    }
    for cell, ref in reference.items():
        paths = Explorer(cfg, repo, step=step).run(cfg.entry, [], {"cell": cell, "acts": ()})
        got = sorted({p.env["acts"] for p in paths if p.end == cfg.exit})
        chk.ob("cover-fallback-direction", f.site(), got == [ref], f"no position address (stop supported), current position {cell[0]}, requested {' '.join(cell[1:])}: {got}; reference {ref} (0 = open = up)", key="coverfb|" + "|".join(cell))



def own_telegram_marker(chk: Check, repo: Repo) -> None:
    """Cover.set_position without a position address sends UP/DOWN and arms the auto stopper; when that telegram comes
    back through process_group_write it must be recognised as the cover's own - once per telegram sent.  The marker is
    therefore a count: incremented where the auto stopper is armed, decremented (not cleared) where an own telegram is
    recognised, and the own-telegram branch leaves the travel calculator alone (set_position has set it up for the
    requested position; retargeting it to the end position makes the device report the end position)."""
    from ..astx import attr_writes
    cm = "xknx.devices.cover"
    ws = [w for w in attr_writes(repo, "_auto_stop_requested", include_mutators=False) if w.func.module.name == cm]
    if not ws:
        raise AnalysisError("Cover: own-telegram marker `_auto_stop_requested` not found")
    arm = [w for w in ws if w.func.name == "_start_auto_stopper"]
    ack = [w for w in ws if w.func.name == "process_group_write"]
    counted = bool(arm) and all(w.kind == "augassign" and isinstance(w.stmt.op, ast.Add) for w in arm) and bool(ack) and all(w.kind == "augassign" and isinstance(w.stmt.op, ast.Sub) for w in ack)
    pg = repo.func(cm, "Cover.process_group_write")
    chk.unit(pg)
    chk.ob("own-telegrams-are-counted", pg.site(), counted, "Cover marks its own up/down telegrams " + ("by a count (armed += 1, recognised -= 1): every telegram sent is recognised once" if counted else f"with {[canon(w.stmt) for w in arm + ack]}: of two set_position() calls before the first telegram comes back the second is taken for a bus command - the auto stopper is cancelled and the calculator sent to the end position"), key="cover|own-marker")
    # every up/down telegram set_position() sends towards an intermediate position is marked as the cover's own - with or
    # without an auto stopper: a telegram that is not, is taken for a bus command and sends the calculator to the end position
    sp = repo.func(cm, "Cover.set_position")
    spc = CFG(sp.node)
    spf = spc.must_facts()
    sends = [n for n in spc.nodes if n.kind == "stmt" and n.ast is not None and any(call_name(c) in ("self.updown.up", "self.updown.down") for c in calls(n.ast)) and any((a.endswith(" is None") and v is False) or (a.endswith(" is not None") and v) for a, v in spf[n.id])]
    marks = [n.id for n in spc.nodes if n.kind == "stmt" and n.ast is not None and ((isinstance(n.ast, ast.AugAssign) and isinstance(n.ast.op, ast.Add) and ast.unparse(n.ast.target) == "self._auto_stop_requested") or any(call_name(c) == "self._start_auto_stopper" for c in calls(n.ast)))]
    okm = bool(sends) and all(spc.all_paths_hit(n.id, marks, ends=[spc.exit], edge_ok=lambda a_, b_, lab: lab != "exc") for n in sends)
    chk.ob("every-own-telegram-is-marked", sp.site(), okm, f"Cover.set_position: {len(sends)} up/down sends towards a requested position; " + ("each is followed on every path by the own-telegram mark (directly or by arming the auto stopper)" if okm else "some path sends up/down without marking it as the cover's own - it comes back as a bus command and retargets the calculator to the end position"), key="cover|own-marked")
    cfg = CFG(pg.node)
    mf = cfg.must_facts()
    own_nodes = [n for n in cfg.nodes if n.kind == "stmt" and n.ast is not None and any(a == "self._auto_stop_requested" and v for a, v in mf[n.id])]
    retarget = [n for n in own_nodes if any(call_name(c) in ("self._start_position_update", "self.travelcalculator.start_travel", "self._process_updown_from_bus") for c in calls(n.ast))]
    # ... and nothing after the branch retargets either: every _start_position_update in the function is under the negation
    later = [n for n in cfg.nodes if n.kind == "stmt" and n.ast is not None and any(call_name(c) in ("self._start_position_update", "self.travelcalculator.start_travel") for c in calls(n.ast)) and not any(a == "self._auto_stop_requested" and v is False for a, v in mf[n.id]) and any(call_name(c2) == "self.updown.process" for n2 in cfg.nodes if n2.ast is not None and cfg.dominates(n2.id, n.id) for c2 in (calls(n2.ast) if n2.kind in ("stmt", "test") else []))]
    # a command from the bus runs the drive to the end position whatever it was doing - the calculator follows it on every
    # path (a guard like "not already opening" leaves a positioned move, whose auto stopper was just cancelled, on its old
    # target while the drive runs on)
    bus = repo.func(cm, "Cover._process_updown_from_bus") if repo.has_func(cm, "Cover._process_updown_from_bus") else pg
    chk.unit(bus)
    bc = CFG(bus.node)
    bmf = bc.must_facts()
    retargets = [n for n in bc.nodes if n.kind == "stmt" and n.ast is not None and any(call_name(c) == "self._start_position_update" for c in calls(n.ast))]
    state_guards = sorted({a for n in retargets for a, v in bmf[n.id] if "is_opening" in a or "is_closing" in a or "is_traveling" in a})
    chk.ob("bus-command-retargets-unconditionally", bus.site(), len(retargets) >= 2 and not state_guards, f"{bus.qualname}: {len(retargets)} retargets to an end position" + (" decided by the direction of the command alone" if not state_guards else f", guarded by the current movement {state_guards}: a positioned move in the commanded direction keeps its old target although its auto stopper was cancelled"), key="cover|bus-retarget")
    chk.ob("own-telegram-does-not-retarget", pg.site(), bool(own_nodes) and not retarget and not later, f"process_group_write, own up/down telegram: {len(own_nodes)} statements under the marker, " + ("none starts a new travel" if not retarget and not later else "the travel calculator is sent to the end position although set_position() targeted the requested one"), key="cover|own-no-retarget")


def climate(chk: Check, repo: Repo) -> None:
    cm = "xknx.devices.climate"
    ss = repo.func(cm, "Climate.set_setpoint_shift")
    tt = repo.func(cm, "Climate.set_target_temperature")
    bt = repo.func(cm, "Climate.base_temperature")
    chk.unit(ss); chk.unit(tt); chk.unit(bt)
    cfg = CFG(ss.node)
    rd = [n for n in cfg.nodes if n.kind == "stmt" and isinstance(n.ast, ast.Assign) and ast.unparse(n.ast.value) == "self.base_temperature"]
    def sends(rv: str) -> list:
        return [n for n in cfg.nodes if n.kind == "stmt" and n.ast is not None and any(isinstance(x, ast.Call) and call_name(x) in (f"self.{rv}.set", f"self.{rv}.send_raw") for x in ast.walk(n.ast))]

    def value_sent(node, rv: str) -> ast.AST:
        """the value a send of remote value `rv` carries: the argument of set(), or - for send_raw(payload) - the argument
        of the `self.<rv>.to_knx(..)` call the payload was built with (reaching definitions)"""
        c = [x for x in ast.walk(node.ast) if isinstance(x, ast.Call) and call_name(x) in (f"self.{rv}.set", f"self.{rv}.send_raw")][0]
        if len(c.args) != 1:
            raise AnalysisError(f"Climate: {call_name(c)} call shape")
        sym = cfg.symbolic(node.id, c.args[0])
        if call_name(c).endswith(".set"):
            return sym
        if isinstance(sym, ast.Call) and call_name(sym) == f"self.{rv}.to_knx" and len(sym.args) == 1:
            return sym.args[0]
        raise AnalysisError(f"Climate: the payload handed to {call_name(c)} is not built by self.{rv}.to_knx(..): {ast.unparse(sym)}")
    wr = sends("_setpoint_shift")
    ok = len(rd) == 1 and len(wr) == 1 and cfg.dominates(rd[0].id, wr[0].id)
    chk.ob("base-temperature-read-before-the-shift-changes", ss.site(), ok, "set_setpoint_shift reads base_temperature into a local before sending the shift", key="climate|order")
    # base + (target - base) == target
    base_ret = [n for n in walk_local(bt.node) if isinstance(n, ast.Return) and n.value is not None and not (isinstance(n.value, ast.Constant) and n.value.value is None)]
    # offset handed to set_setpoint_shift as a function of the requested target (through a local or directly)
    ssc = [c for c in calls(tt.node) if call_name(c) == "self.set_setpoint_shift" and len(c.args) == 1]
    delta = []
    for c in ssc:
        a = c.args[0]
        if isinstance(a, ast.Name):
            delta += [n.value for n in walk_local(tt.node) if isinstance(n, ast.Assign) and len(n.targets) == 1 and isinstance(n.targets[0], ast.Name) and n.targets[0].id == a.id]
        else:
            delta.append(a)
    newt = sends("target_temperature")
    if len(base_ret) != 1 or len(delta) != 1 or len(newt) != 1 or len(wr) != 1 or len(rd) != 1:
        raise AnalysisError("Climate: setpoint arithmetic not found")
    # the value handed to the shift datapoint, as a function of the requested offset (reaching definitions, not names)
    off_param = ss.node.args.args[1].arg
    sent = value_sent(wr[0], "_setpoint_shift")
    clampers = clamp_methods(chk, repo, cm, "Climate")
    def is_requested(e: ast.AST) -> bool:
        if isinstance(e, ast.Name) and e.id == off_param:
            return True
        if isinstance(e, ast.Call) and call_name(e) in {f"self.{m}" for m in clampers}:
            a0 = e.args[0] if e.args else next((k.value for k in e.keywords if k.arg == clampers[call_name(e)[5:]]), None)
            return isinstance(a0, ast.Name) and a0.id == off_param
        return False
    chk.ob("shift-sent-is-the-requested-offset", ss.site(), is_requested(sent), f"_setpoint_shift.set receives {ast.unparse(sent)} for the requested `{off_param}` (allowed: the offset itself, or the offset clamped by {sorted(clampers)})", key="climate|sent")
    a_d, b_d = affine(delta[0], tt.node.args.args[1].arg, {})  # offset as a function of the requested target
    # the broadcast target as a function of the value that was sent as the shift
    target_sym = value_sent(newt[0], "target_temperature")
    sent_dump = ast.dump(sent)

    class _Sub(ast.NodeTransformer):
        def generic_visit(self, node):
            if ast.dump(node) == sent_dump:
                return ast.Name(id="__sent__", ctx=ast.Load())
            return super().generic_visit(node)
        def visit(self, node):
            if ast.dump(node) == sent_dump:
                return ast.Name(id="__sent__", ctx=ast.Load())
            return super().visit(node)
    # W then R of the shift's own codec is "the value as the datapoint can represent it" (whole steps for DPT 6.010,
    # the identity up to 0.01 K for DPT 9.002; the two directions are inverse - rule (b)): rounding aside it is the value
    # itself.  The broadcast target has to be built from that quantised shift - built from the raw offset the device
    # reports a target the shift it sent does not produce (and its base temperature drifts).
    class _Quant(ast.NodeTransformer):
        def __init__(self) -> None:
            self.n = 0
        def visit_Call(self, node: ast.Call):
            self.generic_visit(node)
            if call_name(node) == "self._setpoint_shift.from_knx" and len(node.args) == 1 and isinstance(node.args[0], ast.Call) and call_name(node.args[0]) == "self._setpoint_shift.to_knx" and len(node.args[0].args) == 1:
                self.n += 1
                return node.args[0].args[0]
            return node
    qz = _Quant()
    target_sym = qz.visit(target_sym)
    raw_offset_used = ast.dump(sent) in ast.dump(target_sym)
    chk.ob("broadcast-target-uses-the-shift-as-sent", ss.site(), qz.n == 1 and raw_offset_used, f"set_setpoint_shift broadcasts base + " + ("the offset passed through the shift datapoint's own encode/decode (what the shift telegram carries)" if qz.n == 1 else "the raw offset - with DPT 6.010 the shift telegram carries whole steps only: requested 22.3 at base 21.0, step 0.5 sends 3 steps (1.5 K) but a target of 22.3"), key="climate|quantised")
    target_in_sent = _Sub().visit(target_sym)
    a_n, b_n = affine(target_in_sent, "__sent__", {})
    comp_a, comp_b = a_n * a_d, a_n * b_d + b_n
    ok2 = comp_a == LP.const(1) and comp_b == LP()
    chk.ob("requested-target-is-what-the-shift-produces", tt.site(), ok2, f"offset = ({a_d})*T + ({b_d}); new target = ({a_n})*sent + ({b_n}) with sent = {ast.unparse(sent)}; composition ({comp_a})*T + ({comp_b}) (unclamped)", key="climate|algebra")
    # with a target address that is only read (state address - the usual configuration) nothing else moves the target:
    # when the own shift telegram is processed as outgoing, the target follows by the same amount - computed from the
    # base temperature as it was *before* the shift value changed.  Else the device keeps reporting the old target and
    # base = target - shift drops by the shift: the same request again sends twice the shift
    pg = repo.func(cm, "Climate.process_group_write")
    chk.unit(pg)
    pcfg = CFG(pg.node)
    pmf = pcfg.must_facts()
    base_reads = [n for n in pcfg.nodes if n.kind == "stmt" and isinstance(n.ast, ast.Assign) and isinstance(n.ast.targets[0], ast.Name) and ast.unparse(n.ast.value) == "self.base_temperature"]
    procs = [n for n in pcfg.nodes if n.ast is not None and n.kind in ("stmt", "for") and any(call_name(c).endswith(".process") for c in calls(n.ast.iter if n.kind == "for" else n.ast))] + [n for n in pcfg.nodes if n.kind == "for"]
    upd = [n for n in pcfg.nodes if n.kind == "stmt" and n.ast is not None and any(call_name(c) == "self.target_temperature.update_value" for c in calls(n.ast))]
    ok_own = False
    if len(base_reads) == 1 and len(upd) == 1 and procs:
        bl = base_reads[0].ast.targets[0].id
        c_ = [c for c in calls(upd[0].ast) if call_name(c) == "self.target_temperature.update_value"][0]
        arg = ast.unparse(c_.args[0]) if c_.args else ""
        facts = pmf[upd[0].id]
        outgoing = any(v and "TelegramDirection.OUTGOING" in a for a, v in facts)
        to_shift = any(v and "self._setpoint_shift.group_address" in a and "destination_address" in a for a, v in facts)
        ok_own = all(pcfg.dominates(base_reads[0].id, p_.id) for p_ in procs) and arg in (f"{bl} + self._setpoint_shift.value", f"self._setpoint_shift.value + {bl}") and outgoing and to_shift
    chk.ob("own-shift-moves-the-target", pg.site(), ok_own, "Climate.process_group_write: an own (outgoing) telegram to the shift address sets target := base-before + shift" if ok_own else "Climate.process_group_write does not move the target when its own shift telegram is processed: with a read-only target address the device keeps reporting the old target, base = target - shift is off by the shift and repeating the request sends the shift twice", key="climate|own-shift")
    br = base_ret[0].value
    chk.ob("base-is-target-minus-shift", bt.site(), ast.unparse(br) == "self.target_temperature.value - self._setpoint_shift.value", f"base_temperature = {ast.unparse(br)}", key="climate|base")


def run(chk: Check, repo: Repo) -> None:
    loopback_table(chk, repo, f"{RV}.remote_value_switch", "RemoteValueSwitch", [True, False])
    loopback_table(chk, repo, f"{RV}.remote_value_updown", "RemoteValueUpDown", [("member", "UP"), ("member", "DOWN")])
    loopback_table(chk, repo, f"{RV}.remote_value_step", "RemoteValueStep", [("member", "INCREASE"), ("member", "DECREASE")])
    scaling(chk, repo)
    setpoint_shift(chk, repo)
    truncation_lint(chk, repo)
    deferred_state(chk, repo)
    climate(chk, repo)
    cover_fallback(chk, repo)
    own_telegram_marker(chk, repo)
    from .common_rules import override_implies_no_dpt_class
    override_implies_no_dpt_class(chk, repo)
    chk.rule("E7 finite loop-back tables by cell evaluation of the extracted conditions; affine-map extraction over Laurent polynomials and inverse check; truncation lint; ownership census of the state attribute; dominance of the base read over the shift write")
    chk.assume("rounding / clamping to the datapoint's range is not modelled (nearest-value clause is not decided)")
