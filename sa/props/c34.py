"""C34 — telegram callbacks see exactly the telegrams they subscribed to.

 (a) truth table of Callback.is_within_filter over {match_outgoing} x {direction} x {match_all} x
     {destination kind} x {filter list: none/no-match/match/both} x {address list: none/other/same/both}
     == oracle (incoming or match_outgoing) and (match_all or (group-ish destination and (some filter
     matches or some address equals))).
 (b) Callback.__init__: match_all iff neither list was given.
 (c) _run_telegram_received_cbs over two registered callbacks x {within filter?} x {callback raises?}:
     each matching callback is called exactly once, in registration order, and a raising callback
     does not stop the loop; process_telegram_incoming/outgoing run callbacks and devices once (C33).
"""

from __future__ import annotations

import ast
from itertools import product

from ..absmachine import AbsMachine, Obj, Outcome, Raise, UNKNOWN, class_isinstance
from ..astx import attr_writes, call_name, calls, method_name, walk_local
from ..cfg import CFG
from ..exctable import ExcTable
from ..explore import Explorer
from ..loader import AnalysisError, EnumMember, Repo
from ..report import Check, canon

TQ = "xknx.core.telegram_queue"
DIR = "xknx.telegram.telegram:TelegramDirection"


def registry(chk: Check, repo: Repo) -> None:
    """A registration stays in force until that very registration is unregistered: the registry list is created empty
    in __init__, grows only by `append(<the Callback object built from the arguments>)` in register_... and shrinks
    only by `remove(<the Callback object passed in>)` in unregister_... (removal by identity/equality of the
    registration object, never by its handler or filters); nothing else assigns or mutates it."""
    tq = repo.cls("xknx.core.telegram_queue", "TelegramQueue")
    ws = [w for w in attr_writes(repo, "telegram_received_cbs", include_mutators=True)]
    chk.count("writers of the telegram callback registry", len(ws))
    chk.floor("writers of the telegram callback registry", len(ws), 3)
    for w in ws:
        q = w.func.qualname
        st = w.stmt
        ok = False
        what = canon(st)[:90]
        if q == "TelegramQueue.__init__":
            v = st.value if isinstance(st, (ast.Assign, ast.AnnAssign)) else None
            ok = isinstance(v, ast.List) and not v.elts
        elif q == "TelegramQueue.register_telegram_received_cb":
            c = st.value if isinstance(st, ast.Expr) else (st if isinstance(st, ast.Call) else None)
            if isinstance(c, ast.Call) and isinstance(c.func, ast.Attribute) and c.func.attr == "append" and len(c.args) == 1 and isinstance(c.args[0], ast.Name):
                built = [n for n in walk_local(w.func.node) if isinstance(n, ast.Assign) and len(n.targets) == 1 and isinstance(n.targets[0], ast.Name) and n.targets[0].id == c.args[0].id]
                rets = [n for n in walk_local(w.func.node) if isinstance(n, ast.Return)]
                ok = len(built) == 1 and isinstance(built[0].value, ast.Call) and call_name(built[0].value).endswith("Callback") and all(isinstance(r.value, ast.Name) and r.value.id == c.args[0].id for r in rets)
        elif q == "TelegramQueue.unregister_telegram_received_cb":
            c = st.value if isinstance(st, ast.Expr) else (st if isinstance(st, ast.Call) else None)
            param = w.func.node.args.args[1].arg
            ok = isinstance(c, ast.Call) and isinstance(c.func, ast.Attribute) and c.func.attr == "remove" and len(c.args) == 1 and isinstance(c.args[0], ast.Name) and c.args[0].id == param
        chk.ob("registration-lives-until-it-is-unregistered", w.func.site(st), ok, f"{q}: `{what}`" + ("" if ok else " — not one of: empty list in __init__, append of the new Callback in register, remove of the passed Callback in unregister"), key=f"registry|{q}|{w.kind}")
    eqs = [m for m in ("__eq__", "__hash__") if m in repo.cls("xknx.core.telegram_queue", "TelegramQueue.Callback").methods]
    chk.ob("registration-lives-until-it-is-unregistered", f"{tq.module.relpath}:{tq.node.lineno}:TelegramQueue.Callback", not eqs, f"TelegramQueue.Callback defines {eqs or 'no'} equality of its own: list.remove() finds the registration object itself", key="registry|identity")


def callbacks_run_whatever_the_devices_do(chk: Check, repo: Repo) -> None:
    """A callback subscribed to a telegram sees it once it is processed: in the two processing functions of the queue
    the call of the callbacks is not skipped when the devices' processing raises - every path that leaves
    `devices.process(...)`, also its exceptional ones, passes `_run_telegram_received_cbs(...)` (incoming telegrams run
    the callbacks first; outgoing ones after the send, around the devices)."""
    for q in ("TelegramQueue.process_telegram_outgoing", "TelegramQueue.process_telegram_incoming"):
        f = repo.func(TQ, q)
        chk.unit(f)
        cfg = CFG(f.node)
        dev = [n for n in cfg.nodes if n.ast is not None and n.kind == "stmt" and any(call_name(c) == "self.xknx.devices.process" for c in calls(n.ast))]
        cbs = [n for n in cfg.nodes if n.ast is not None and n.kind == "stmt" and any(call_name(c) == "self._run_telegram_received_cbs" for c in calls(n.ast))]
        ok = len(dev) == 1 and bool(cbs) and (all(cfg.dominates(c.id, dev[0].id) for c in cbs[:1]) or cfg.all_paths_hit(dev[0].id, [c.id for c in cbs], ends=[cfg.exit, cfg.raise_exit]))
        chk.ob("callbacks-run-whatever-the-devices-do", f.site(), ok, f"{q}: the callbacks run before the devices or on every way out of devices.process()" if ok else f"{q}: an exception out of devices.process() skips _run_telegram_received_cbs - a callback subscribed to this telegram never sees it although it was sent", key=f"callbacks-after-devices|{q}")


def run(chk: Check, repo: Repo) -> None:
    registry(chk, repo)
    callbacks_run_whatever_the_devices_do(chk, repo)
    from .common_rules import dispatch_iterates_a_snapshot
    dispatch_iterates_a_snapshot(chk, repo, repo.func("xknx.core.telegram_queue", "TelegramQueue._run_telegram_received_cbs"), "telegram_received_cbs", "the telegram callbacks", "snapshot|telegram-callbacks")
    fi = repo.func(TQ, "TelegramQueue.Callback.is_within_filter")
    chk.unit(fi)
    cfg = CFG(fi.node)
    exc = ExcTable(repo)
    p0 = fi.node.args.args[1].arg

    def hook(e, env):
        if isinstance(e, ast.Attribute):
            v = repo.fold(e, fi.module, None)
            if isinstance(v, EnumMember):
                return v
        return UNKNOWN

    def call_model(c: ast.Call, env):
        if method_name(c) == "match" and isinstance(c.func, ast.Attribute):
            recv = env.get(ast.unparse(c.func.value))
            if isinstance(recv, Obj) and recv.cls == "AddressFilter":
                return [Outcome(None, recv.tag == "match")]
        return None

    dest_same = Obj("GroupAddress", "dest")
    cells = mism = 0
    filt_cases = {"none": (), "nomatch": (Obj("AddressFilter", "nomatch"),), "match": (Obj("AddressFilter", "match"),), "both": (Obj("AddressFilter", "nomatch"), Obj("AddressFilter", "match"))}
    for mo, direction, ma in product((False, True), ("INCOMING", "OUTGOING"), (False, True)):
        for dkind in ("GroupAddress", "InternalGroupAddress", "IndividualAddress"):
            dest = Obj(dkind, "dest")
            other = Obj(dkind if dkind != "IndividualAddress" else "GroupAddress", "other")
            addr_cases = {"none": (), "other": (other,), "same": (dest,), "both": (other, dest)}
            for fname, filters in filt_cases.items():
                for aname, addrs in addr_cases.items():
                    cells += 1
                    env = {"self._match_outgoing": mo, "self._match_all": ma, f"{p0}.direction": EnumMember(DIR, direction), f"{p0}.destination_address": dest,
                           "self.address_filters": filters, "self.group_addresses": addrs}
                    am = AbsMachine(cfg, exc, call_model, hook)
                    am.isinstance_fn = class_isinstance(repo)
                    paths = Explorer(cfg, repo, am.step).run(cfg.entry, [], env)
                    rets = {p.env.get("#ret") for p in paths if p.end == cfg.exit}
                    want = (direction == "INCOMING" or mo) and (ma or (dkind in ("GroupAddress", "InternalGroupAddress") and (fname in ("match", "both") or aname in ("same", "both"))))
                    ok = len(paths) >= 1 and rets == {want} and all(p.end == cfg.exit for p in paths)
                    if not ok:
                        mism += 1
                        if mism <= 6:
                            chk.ob("filter-cell", fi.site(), False, f"match_outgoing={mo} direction={direction} match_all={ma} dest={dkind} filters={fname} addresses={aname}: code {sorted(map(str, rets))}, oracle {want}", key=f"cell|{mo}|{direction}|{ma}|{dkind}|{fname}|{aname}")
    chk.count("is_within_filter_cells", cells)
    chk.ob("filter-table-equals-oracle", fi.site(), mism == 0, f"{cells} cells, {mism} differ from (incoming or match_outgoing) and (match_all or (group destination and (filter matches or address equal)))", key="filter-table")
    # isinstance on a PEP 604 union: make sure the evaluated test really was the union of both group address kinds
    tests = [ast.unparse(n.ast) for n in cfg.nodes if n.kind == "test" and "isinstance" in ast.unparse(n.ast)]
    chk.ob("destination-kinds", fi.site(), any("GroupAddress" in t and "InternalGroupAddress" in t for t in tests), f"destination test: {tests}", key="destination-kinds")

    # (b) __init__
    ini = repo.func(TQ, "TelegramQueue.Callback.__init__")
    chk.unit(ini)
    cfg_i = CFG(ini.node)
    for af, ga in product((None, ()), repeat=2):
        am = AbsMachine(cfg_i, exc, lambda c, e: None)
        paths = Explorer(cfg_i, repo, am.step).run(cfg_i.entry, [], {"address_filters": af, "group_addresses": ga, "match_for_outgoing_telegrams": False})
        got = {p.env.get("self._match_all") for p in paths}
        want = af is None and ga is None
        chk.ob("match-all-iff-no-lists", ini.site(), got == {want}, f"address_filters={'None' if af is None else '[]'} group_addresses={'None' if ga is None else '[]'} -> _match_all {sorted(map(str, got))}, required {want}", key=f"matchall|{af is None}|{ga is None}")
    for mo in (False, True):
        am = AbsMachine(cfg_i, exc, lambda c, e: None)
        paths = Explorer(cfg_i, repo, am.step).run(cfg_i.entry, [], {"address_filters": None, "group_addresses": None, "match_for_outgoing_telegrams": mo})
        chk.ob("match-outgoing-flag", ini.site(), {p.env.get("self._match_outgoing") for p in paths} == {mo}, f"match_for_outgoing_telegrams={mo} stored as _match_outgoing", key=f"matchout|{mo}")
    reg = repo.func(TQ, "TelegramQueue.register_telegram_received_cb")
    chk.unit(reg)
    ctor = [c for c in calls(reg.node) if call_name(c).endswith("Callback")]
    kw = {k.arg: ast.unparse(k.value) for c in ctor for k in c.keywords}
    chk.ob("registration-passes-options", reg.site(), len(ctor) == 1 and kw == {"address_filters": "address_filters", "group_addresses": "group_addresses", "match_for_outgoing_telegrams": "match_for_outgoing"} and any(call_name(c) == "self.telegram_received_cbs.append" for c in calls(reg.node)),
           f"register_telegram_received_cb builds Callback({kw}) and appends it", key="registration")

    # (c) dispatch loop
    run_ = repo.func(TQ, "TelegramQueue._run_telegram_received_cbs")
    chk.unit(run_)
    cfg_r = CFG(run_.node)
    n = 0
    kinds = (None, "ValueError", "CouldNotParseTelegram", "CommunicationError", "XKNXException")
    # "raise": the filter itself raises (AddressFilter.match refuses an address whose level does not fit the pattern) -
    # that is the callback's own failure and must not cost the others, or the devices, the telegram
    for w1, w2, r1, r2 in product((False, True, "raise"), (False, True, "raise"), kinds, kinds):
        if (w1 == "raise" and r1) or (w2 == "raise" and r2):
            continue
        cb = (Obj("Callback", "cb1", (("within", w1), ("raises", r1))), Obj("Callback", "cb2", (("within", w2), ("raises", r2))))

        def cm(c: ast.Call, env):
            if isinstance(c.func, ast.Attribute):
                recv = env.get(ast.unparse(c.func.value))
                if isinstance(recv, Obj) and recv.cls == "Callback":
                    if c.func.attr == "is_within_filter":
                        if recv.get("within") == "raise":
                            return [Outcome(None, Raise("ValueError"))]
                        return [Outcome(None, recv.get("within"))]
                    if c.func.attr == "callback":
                        return [Outcome(f"CALL:{recv.tag}", Raise(recv.get("raises")) if recv.get("raises") else None)]
            if call_name(c).startswith("logger."):
                return [Outcome(None, None)]
            return None

        am = AbsMachine(cfg_r, exc, cm)
        paths = Explorer(cfg_r, repo, am.step).run(cfg_r.entry, [], {"self.telegram_received_cbs": cb})
        got = {(tuple(t for t in p.env.get("trace", ()) if t.startswith("CALL:")), p.end_kind) for p in paths}
        want = {(tuple(f"CALL:{c.tag}" for c in cb if c.get("within") is True), "exit")}
        n += 1
        chk.ob("callback-dispatch", run_.site(), got == want, f"cb1(within={w1}, raises={r1}) cb2(within={w2}, raises={r2}): code {sorted(got)}; reference {sorted(want)}", key=f"dispatch|{w1}|{w2}|{r1}|{r2}" + ("" if got == want else f"|{sorted(got)}"))
    chk.count("dispatch_cells", n)
    chk.rule("E7 truth table of Callback.is_within_filter vs the oracle formula; abstract path enumeration of the dispatch loop over two callbacks x {within filter} x {raises}")
    chk.assume("AddressFilter.match is decided by C02; callbacks raise Exception subclasses (BaseException such as CancelledError propagates by design)")
