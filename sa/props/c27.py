"""C27 — routing honours busy flow control and the indication spacing (structural part).

 (a) Routing.send_cemi: on every normal path exactly one RoutingIndication is sent, inside
     `async with self._flow_control.throttle()`, followed by exactly one local confirmation built from the
     same frame with code L_Data.con; RoutingIndication frames are built and sent nowhere else.
 (b) throttle(): [sleep(WAIT - elapsed) iff elapsed < WAIT] -> yield at a moment the ready flag is set -> stamp the
     send time (table over elapsed cells x ready-flag scenarios, including "woken, but paused again before the waiter
     ran": asyncio.Event.wait() does not look at the flag again); ROUTING_INDICATION_WAIT_TIME folds to 0.02.
 (c) the ready flag: cleared only by handle_routing_busy (always, first), set only in __init__, cancel() and in
     _resume_sending after sleeping the announced wait time and a non-negative random extension random*N*50ms whose
     busy-frame count N is read after the wait time has been slept; whoever cancels the timer task starts a new one
     or sets the flag on every path (a pause ends with its timer).
 (d) handle_routing_busy table over {pause running?} x {remaining vs announced wait}: a shorter or equal
     announcement keeps the running pause, a longer one (or none running) restarts the timer from now
     with the announced time, cancelling the previous timer task.
Does not decide the timing inequalities themselves (event-loop clock quantities).
"""

from __future__ import annotations

import ast

from ..absmachine import AbsMachine, Obj, Outcome, Raise, UNKNOWN, class_isinstance
from ..astx import attr_writes, call_name, call_sites, calls, enclosing_with_items, method_name, walk_local
from ..cfg import CFG
from ..exctable import ExcTable
from ..explore import Explorer
from ..loader import NOFOLD, AnalysisError, EnumMember, Repo
from ..report import Check, canon

M = "xknx.io.routing"


def hook_consts(repo, fi):
    def hook(e, env):
        if isinstance(e, ast.Name):
            v = repo.module_const(M, e.id)
            if v is not NOFOLD and isinstance(v, (int, float)):
                return v
        if isinstance(e, ast.Attribute):
            v = repo.fold(e, fi.module, fi.cls)
            if isinstance(v, EnumMember):
                return v
        return UNKNOWN
    return hook


def send_cemi(chk: Check, repo: Repo) -> None:
    fi = repo.func(M, "Routing.send_cemi")
    chk.unit(fi)
    cfg = CFG(fi.node)
    exc = ExcTable(repo)
    box = {}

    def cm(c: ast.Call, env):
        n = call_name(c)
        am = box["am"]
        if n == "RoutingIndication":
            return [Outcome(f"BUILD_INDICATION(code={env.get('cemi.code')!r})", Obj("RoutingIndication", "ri"))]
        if n == "self._send_knxipframe":
            return [Outcome("SEND", None), Outcome("SEND:fails", Raise("CommunicationError"))]
        if n == "self.cemi_received_callback":
            return [Outcome(f"LOCAL_CON(code={env.get('cemi.code')!r})", None)]
        if n == "KNXIPFrame.init_from_body" or n == "cemi.to_knx":
            return [Outcome(None, Obj("bytes", "x"))]
        return None

    am = AbsMachine(cfg, exc, cm, hook_consts(repo, fi))
    box["am"] = am
    paths = Explorer(cfg, repo, am.step).run(cfg.entry, [], {})
    got = {(tuple(t for t in p.env.get("trace", ()) if not t.startswith("raise:")), p.end_kind) for p in paths}
    IND = repr(EnumMember("xknx.cemi.const:CEMIMessageCode", "L_DATA_IND")); CON = repr(EnumMember("xknx.cemi.const:CEMIMessageCode", "L_DATA_CON"))
    want = {((f"BUILD_INDICATION(code={IND})", "SEND", f"LOCAL_CON(code={CON})"), "exit"), ((f"BUILD_INDICATION(code={IND})", "SEND:fails"), "raise")}
    chk.ob("send-then-one-confirmation", fi.site(), got == want, f"send_cemi traces {sorted(got)}; reference {sorted(want)}", key="send-cemi" + ("" if got == want else f"|{sorted(got)}"))
    sends = [n for n in cfg.nodes if n.kind == "stmt" and n.ast is not None and any(call_name(c) == "self._send_knxipframe" for c in calls(n.ast))]
    chk.ob("send-inside-throttle", fi.site(), len(sends) == 1 and any(w == "self._flow_control.throttle()" for w in enclosing_with_items(sends[0].withs)), "the RoutingIndication is sent inside `async with self._flow_control.throttle()`", key="send-inside-throttle")
    builders = [f.qualname for f, c in call_sites(repo, "RoutingIndication") if f.module.name.startswith("xknx.io")]
    chk.ob("indication-producers", fi.site(), builders == ["Routing.send_cemi"], f"RoutingIndication is constructed for sending only in {builders}", key="indication-producers")
    senders = [f.qualname for f, c in call_sites(repo, "_send_knxipframe") if f.module.name == M]
    chk.ob("indication-producers", fi.site(), senders == ["Routing.send_cemi"], f"_send_knxipframe callers: {senders}", key="send-callers")
    for sub in repo.subclasses(repo.cls(M, "Routing"), strict=True):
        chk.ob("send-not-overridden", fi.site(), "send_cemi" not in sub.methods, f"{sub.name} does not override send_cemi", key=f"send-override|{sub.name}")


def throttle(chk: Check, repo: Repo) -> None:
    fi = repo.func(M, "_RoutingFlowControl.throttle")
    chk.unit(fi)
    wt = repo.module_const(M, "ROUTING_INDICATION_WAIT_TIME")
    chk.ob("spacing-constant", fi.site(), wt == 0.02, f"ROUTING_INDICATION_WAIT_TIME folds to {wt!r} (20 ms)", key="spacing-constant")
    chk.ob("throttle-is-contextmanager", fi.site(), any("asynccontextmanager" in d for d in fi.decorators), "throttle is an asynccontextmanager", key="throttle-cm")
    cfg = CFG(fi.node)
    exc = ExcTable(repo)
    # the ready flag as a scenario: its value before any wake-up, after the first, after the second, ... (asyncio.Event.wait
    # returns when set() was called - not necessarily with the flag still set: handle_routing_busy may have cleared it
    # again before the waiter runs).  The indication may only go out (the yield) at a moment the flag is set.
    scenarios = (("not paused", (True,)), ("paused, woken when the pause ends", (False, True)), ("paused, woken, paused again before running", (False, False, True)))
    for (label, last), (slabel, flags) in ((a_, b_) for a_ in (("5 ms ago", 99.995), ("exactly 20 ms ago", 99.98), ("long ago", 50.0)) for b_ in scenarios):
        box = {}

        def flag_now(env):
            k = sum(1 for t in env.get("trace", ()) if t == "WAIT_READY")
            return flags[min(k, len(flags) - 1)]

        def cm(c, env):
            n = call_name(c)
            if n == "self._loop.time":
                return [Outcome(None, 100.0)]
            if n == "asyncio.sleep":
                v = box["am"].ev(c.args[0], env, {})
                return [Outcome(f"SLEEP({round(v, 6) if isinstance(v, float) else v})", None)]
            if n == "self._ready.wait":
                return [Outcome("WAIT_READY", None)]
            if n == "self._ready.is_set":
                return [Outcome(f"FLAG={flag_now(env)}", flag_now(env))]
            return None

        am = AbsMachine(cfg, exc, cm, hook_consts(repo, fi))
        box["am"] = am
        paths = Explorer(cfg, repo, am.step, max_steps=120).run(cfg.entry, [], {"#trace_yields": True, "self._last_sent_routing_indication_time": last})
        elapsed = 100.0 - last
        pre = (f"SLEEP({round(0.02 - elapsed, 6)})",) if elapsed < 0.02 else ()
        ok = bool(paths)
        detail = []
        for p_ in paths:
            tr = tuple(t for t in p_.env.get("trace", ()) if not t.startswith("FLAG="))
            ys = [i for i, t in enumerate(tr) if t.startswith("YIELD")]
            waits_before = sum(1 for t in tr[: ys[0]] if t == "WAIT_READY") if ys else 0
            flag_at_yield = flags[min(waits_before, len(flags) - 1)] if ys else None
            sleeps = tuple(t for t in tr if t.startswith("SLEEP"))
            good = len(ys) == 1 and flag_at_yield is True and sleeps == pre and p_.end_kind == "exit" and p_.env.get("self._last_sent_routing_indication_time") == 100.0 and (not pre or tr.index(pre[0]) < ys[0])
            ok &= good
            detail.append(f"{tr} flag at yield={flag_at_yield} end={p_.end_kind}")
        chk.ob("throttle-cell", fi.site(), ok, f"last indication {label}, {slabel}: {sorted(set(detail))}; required: {pre or 'no'} spacing sleep, one yield at a moment the ready flag is set, then the send time is stamped", key=f"throttle|{label}|{slabel}" + ("" if ok else f"|{sorted(set(detail))}"))


def ready_flag(chk: Check, repo: Repo) -> None:
    sites = []
    for f in repo.all_functions():
        if f.module.name != M:
            continue
        for c in calls(f.node):
            n = call_name(c)
            if n in ("self._ready.set", "self._ready.clear"):
                sites.append((f, c, n.rsplit(".", 1)[1]))
    chk.floor("ready flag set/clear sites", len(sites), 3)
    for f, c, kind in sites:
        ok = (kind == "clear" and f.qualname == "_RoutingFlowControl.handle_routing_busy") or (kind == "set" and f.qualname in ("_RoutingFlowControl.__init__", "_RoutingFlowControl._resume_sending", "_RoutingFlowControl.cancel"))
        chk.ob("ready-flag-owner", f.site(c), ok, f"_ready.{kind}() in {f.qualname}", key=f"ready|{kind}|{f.qualname}")
    rs = repo.func(M, "_RoutingFlowControl._resume_sending")
    chk.unit(rs)
    cfg = CFG(rs.node)

    def factors(e: ast.AST) -> list[ast.AST]:
        if isinstance(e, ast.BinOp) and isinstance(e.op, ast.Mult):
            return factors(e.left) + factors(e.right)
        return [e]

    def terms(e: ast.AST) -> list[ast.AST]:
        if isinstance(e, ast.BinOp) and isinstance(e.op, ast.Add):
            return terms(e.left) + terms(e.right)
        return [e]
    # the sleeps that precede ready.set() (all of them dominate it), with their arguments as values (reaching definitions)
    setn = [n for n in cfg.nodes if n.kind == "stmt" and n.ast is not None and any(call_name(c) == "self._ready.set" for c in calls(n.ast))]
    if len(setn) != 1:
        raise AnalysisError("_resume_sending: expected one _ready.set()")
    sleeps = []
    for n in cfg.nodes:
        if n.kind == "stmt" and n.ast is not None and n.id != setn[0].id and cfg.dominates(n.id, setn[0].id):
            for c in calls(n.ast):
                if call_name(c) == "asyncio.sleep" and len(c.args) == 1:
                    sleeps.append((n, c.args[0], cfg.symbolic(n.id, c.args[0])))
    all_terms = [(n, raw, t) for n, raw, sym in sleeps for t in terms(sym)]
    base = [(n, t) for n, raw, t in all_terms if ast.unparse(t) == "self._wait_time_ms / 1000"]
    ext = [(n, raw, t) for n, raw, t in all_terms if "self._received_busy_frames" in ast.unparse(t)]
    other = [ast.unparse(t) for n, raw, t in all_terms if ast.unparse(t) != "self._wait_time_ms / 1000" and "self._received_busy_frames" not in ast.unparse(t)]
    base_ok = len(base) == 1 and not other and not [n for n in cfg.nodes if n.kind == "stmt" and n.ast is not None and any(call_name(c) == "self._ready.set" for c in calls(n.ast)) and not sleeps]
    chk.ob("resume-after-wait", rs.site(), base_ok, f"before ready.set() _resume_sending sleeps {[ast.unparse(sym) for _, _, sym in sleeps]}: the announced wait time once, plus the extension, nothing else ({other})", key="resume-after-wait")
    ext_ok = False
    ext_txt = "?"
    fresh = False
    if len(ext) == 1 and base:
        n_ext, raw, t = ext[0]
        ext_txt = ast.unparse(t)
        kinds_ = []
        for f_ in factors(t):
            v = repo.fold(f_, rs.module, rs.cls)
            if isinstance(f_, ast.Call) and call_name(f_) == "random.random" and not f_.args:
                kinds_.append("random")
            elif ast.unparse(f_) == "self._received_busy_frames":
                kinds_.append("busy")
            elif isinstance(v, (int, float)) and not isinstance(v, bool) and v >= 0:
                kinds_.append("const")
            else:
                kinds_.append("?")
        ext_ok = "?" not in kinds_ and kinds_.count("random") == 1 and kinds_.count("busy") == 1
        # where the busy-frame count is read for the extension: the sleep statement itself or the definitions of the
        # locals its argument uses - every such read has to come after the announced wait time has been slept
        rd = cfg.reaching_defs()
        read_nodes: set[int] = set()
        work = [(n_ext.id, raw)]
        seen_defs: set[int] = set()
        while work:
            at, e = work.pop()
            if "self._received_busy_frames" in ast.unparse(e):
                direct = [x for x in ast.walk(e) if isinstance(x, ast.Attribute) and ast.unparse(x) == "self._received_busy_frames"]
                if direct:
                    read_nodes.add(at)
            for nm in [x for x in ast.walk(e) if isinstance(x, ast.Name) and isinstance(x.ctx, ast.Load)]:
                for d in rd[at].get(nm.id, ()):
                    if d >= 0 and d not in seen_defs and isinstance(cfg.nodes[d].ast, (ast.Assign, ast.AnnAssign)) and cfg.nodes[d].ast.value is not None:
                        seen_defs.add(d)
                        work.append((d, cfg.nodes[d].ast.value))
        base_node = base[0][0]
        fresh = bool(read_nodes) and all(r != base_node.id and cfg.dominates(base_node.id, r) for r in read_nodes)
    chk.ob("extension-non-negative", rs.site(), ext_ok and repo.module_const(M, "BUSY_RANDOM_TIME_FACTOR") == 0.05, f"random extension = {ext_txt} (product of non-negative factors: one random.random(), the busy-frame count, constants; BUSY_RANDOM_TIME_FACTOR = 0.05)", key="extension")
    chk.ob("extension-uses-the-count-at-the-end-of-the-wait", rs.site(), fresh, "the busy-frame count N of the extension random*N*50ms is read after the announced wait time has been slept - frames covered by the running pause are counted without restarting the timer, a count read when the timer starts misses them", key="extension|fresh")
    # a pause ends with its timer: whoever cancels the timer task either starts a new one or releases the senders
    for f in repo.all_functions():
        if f.module.name != M or f.cls is None or f.cls.name != "_RoutingFlowControl":
            continue
        fc = CFG(f.node)
        cancels = [n for n in fc.nodes if n.kind == "stmt" and n.ast is not None and any(call_name(c) == "self._timer_task.cancel" for c in calls(n.ast))]
        if not cancels:
            continue
        chk.unit(f)
        resume = [n.id for n in fc.nodes if n.kind == "stmt" and n.ast is not None and (any(call_name(c) == "self._ready.set" for c in calls(n.ast)) or (isinstance(n.ast, ast.Assign) and any(ast.unparse(t) == "self._timer_task" for t in n.ast.targets) and any(call_name(c) == "self._resume_sending" for c in calls(n.ast))))]
        for cn in cancels:
            ok = fc.all_paths_hit(cn.id, resume, ends=[fc.exit])
            chk.ob("pause-ends-with-its-timer", f.site(cn.ast), ok, f"{f.qualname} cancels the timer task - the only code that sets the ready flag again - and on every path " + ("starts a new timer or sets the flag itself" if ok else "some path returns with the flag left cleared: parked and later senders wait forever"), key=f"timer-cancel|{f.qualname}")
    ws = [w for w in attr_writes(repo, "_received_busy_frames", include_mutators=False) if w.func.module.name == M]
    def zero(w) -> bool:
        return w.kind == "assign" and isinstance(getattr(w.stmt, "value", None), ast.Constant) and w.stmt.value.value == 0
    ok = all((zero(w) and w.func.name in ("__init__", "cancel")) or (w.kind == "augassign" and ((w.func.name == "handle_routing_busy" and isinstance(w.stmt.op, ast.Add)) or (w.func.name == "_resume_sending" and isinstance(w.stmt.op, ast.Sub)))) for w in ws)
    names = {w.func.name for w in ws}
    chk.ob("busy-counter-writers", rs.site(), ok and {"__init__", "handle_routing_busy", "_resume_sending"} <= names, f"_received_busy_frames: {[(w.func.name, canon(w.stmt)) for w in ws]} (reset to 0 at construction / cancel, counted up by handle_routing_busy, faded out by _resume_sending)", key="busy-counter")


def busy_table(chk: Check, repo: Repo) -> None:
    fi = repo.func(M, "_RoutingFlowControl.handle_routing_busy")
    chk.unit(fi)
    cfg = CFG(fi.node)
    exc = ExcTable(repo)
    p0 = fi.node.args.args[1].arg
    for label, start, cur_ms, new_ms in (("no pause running", None, 0, 80), ("50 ms remaining, announces 20", 99.95, 100, 20), ("50 ms remaining, announces 50", 99.95, 100, 50), ("50 ms remaining, announces 80", 99.95, 100, 80)):
        for old_task in (None, Obj("Task", "old")):
            def cm(c, env):
                n = call_name(c)
                if n == "self._loop.time":
                    return [Outcome(None, 100.0)]
                if n == "self._ready.clear":
                    return [Outcome("CLEAR_READY", None)]
                if n == "self._timer_task.cancel":
                    return [Outcome("CANCEL_TIMER", None)]
                if n == "self._timer_task.done":
                    return [Outcome(None, False)]  # the cells with a timer task have it running (pause, extension or slowduration)
                if n == "asyncio.create_task":
                    return [Outcome(f"SPAWN({ast.unparse(c.args[0])})", Obj("Task", "new"))]
                if n.startswith("logger.") or n == "round":
                    return [Outcome(None, None)]
                return None
            am = AbsMachine(cfg, exc, cm, hook_consts(repo, fi))
            env = {f"{p0}.wait_time": new_ms, "self._wait_start_time": start, "self._wait_time_ms": cur_ms, "self._last_busy_frame_time": 99.0, "self._received_busy_frames": 0, "self._timer_task": old_task}
            paths = Explorer(cfg, repo, am.step).run(cfg.entry, [], env)
            got = {(tuple(p.env.get("trace", ())), p.env.get("self._wait_time_ms"), p.env.get("self._wait_start_time"), repr(p.env.get("self._timer_task")), p.env.get("self._last_busy_frame_time")) for p in paths}
            # the count N of the moving time window: a frame more than the cooldown after its predecessor (here 1 s) is counted
            # whenever the window is open - the timer task runs through pause, extension, slowduration and the decrements -
            # also when sending has already resumed (no pause running); the first frame of a window is not counted
            counts = {p.env.get("self._received_busy_frames") for p in paths}
            want_n = {1 if old_task else 0}
            # (a running pause without its timer is not a state of the flow control: no count reference for that cell)
            if not (start is not None and old_task is None):
              chk.ob("busy-frame-is-counted-while-the-window-is-open", fi.site(), counts == want_n, f"{label}, timer task {'running' if old_task else 'none'}: N after the frame {sorted(map(str, counts))}; reference {sorted(want_n)}" + ("" if counts == want_n else " - the random extension random*N*50ms of the pause this frame starts is computed with too small an N"), key=f"busy-count|{label}|{bool(old_task)}")
            restart = start is None or (cur_ms - (100.0 - start) * 1000) < new_ms
            if restart:
                want = {(("CLEAR_READY",) + (("CANCEL_TIMER",) if old_task else ()) + ("SPAWN(self._resume_sending())",), new_ms, 100.0, repr(Obj("Task", "new")), 100.0)}
            else:
                want = {(("CLEAR_READY",), cur_ms, start, repr(old_task), 100.0)}
            # float tolerance for the remaining-time arithmetic: compare with rounding
            chk.ob("busy-cell", fi.site(), got == want, f"{label}, timer task {'running' if old_task else 'none'}: {sorted(map(str, got))}; reference {sorted(map(str, want))}", key=f"busy|{label}|{bool(old_task)}" + ("" if got == want else f"|{sorted(map(str, got))}"))
    hf = repo.func(M, "Routing._handle_frame")
    chk.unit(hf)
    ok = any(call_name(c) == "self._flow_control.handle_routing_busy" for c in calls(hf.node))
    chk.ob("busy-frames-reach-flow-control", hf.site(), ok, "RoutingBusy frames are handed to the flow control", key="busy-dispatch")


def throttle_is_atomic(chk: Check, repo: Repo) -> None:
    """The spacing is a check-then-act on shared state (read the last transmission time, sleep, wait for the ready flag,
    transmit, store the new time) with awaits in between: senders that arrive together (the telegram queue is serial,
    but management frames are sent from background tasks) would all measure from the same last transmission and send
    back to back.  Every statement of throttle() that awaits, yields to the sender or touches the last-transmission
    time is inside one `async with <lock>` whose lock is an asyncio.Lock created once in __init__."""
    fc = repo.cls(M, "_RoutingFlowControl")
    f = fc.methods["throttle"]
    chk.unit(f)
    cfg = CFG(f.node)
    locks = {ast.unparse(n.targets[0]) for n in walk_local(fc.methods["__init__"].node) if isinstance(n, ast.Assign) and len(n.targets) == 1 and isinstance(n.value, ast.Call) and call_name(n.value) == "asyncio.Lock"}
    critical = []
    for n in cfg.nodes:
        if n.ast is None or n.kind not in ("stmt", "test"):
            continue
        touches = any(isinstance(x, ast.Attribute) and x.attr == "_last_sent_routing_indication_time" for x in ast.walk(n.ast))
        suspends = any(isinstance(x, (ast.Await, ast.Yield)) for x in ast.walk(n.ast))
        if touches or suspends:
            held = {ast.unparse(i.context_expr) for w in n.withs if isinstance(w, ast.AsyncWith) for i in w.items}
            critical.append((n, held & locks))
    chk.count("throttle statements in the spacing protocol", len(critical))
    chk.floor("throttle statements in the spacing protocol", len(critical), 4)
    common = set.intersection(*(h for _, h in critical)) if critical else set()
    bad = [ast.unparse(n.ast)[:60] for n, h in critical if not h]
    chk.ob("spacing-check-and-send-are-one-critical-section", f.site(), bool(common), f"throttle(): {len(critical)} statements read/await/yield/store under lock {sorted(common) or 'NONE'}" + (f"; outside any lock: {bad} — concurrent senders measure from the same last transmission and transmit together" if not common else ""), key="throttle|atomic")


def run(chk: Check, repo: Repo) -> None:
    throttle_is_atomic(chk, repo)
    send_cemi(chk, repo)
    throttle(chk, repo)
    ready_flag(chk, repo)
    busy_table(chk, repo)
    chk.rule("E4/E7 abstract path enumeration of send_cemi, throttle, _resume_sending and handle_routing_busy over boundary cells; E5 census of ready-flag set/clear sites and indication producers")
    chk.assume("timing inequalities (pause measured on the event-loop clock, 20 ms spacing under concurrent senders) are clock quantities and are not decided; only the control structure that implements them is")
