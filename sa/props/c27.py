"""C27 — routing honours busy flow control and the indication spacing (structural part).

 (a) Routing.send_cemi: on every normal path exactly one RoutingIndication is sent, inside
     `async with self._flow_control.throttle()`, followed by exactly one local confirmation built from the
     same frame with code L_Data.con; RoutingIndication frames are built and sent nowhere else.
 (b) throttle(): [sleep(WAIT - elapsed) iff elapsed < WAIT] -> wait for ready -> yield -> stamp the send
     time (table over elapsed cells); ROUTING_INDICATION_WAIT_TIME folds to 0.02.
 (c) the ready flag: cleared only by handle_routing_busy (always, first), set only in __init__ and in
     _resume_sending after `sleep(wait_time_ms / 1000 + non-negative random extension)`.
 (d) handle_routing_busy table over {pause running?} x {remaining vs announced wait}: a shorter or equal
     announcement keeps the running pause, a longer one (or none running) restarts the timer from now
     with the announced time, cancelling the previous timer task.
Does not decide the timing inequalities themselves (event-loop clock quantities).
"""

from __future__ import annotations

import ast

from ..absmachine import AbsMachine, Obj, Outcome, Raise, UNKNOWN, class_isinstance
from ..astx import attr_writes, call_name, call_sites, calls, enclosing_with_items, method_name, walk_local
from ..cfg import CFG
from ..exctable import ExcTable
from ..explore import Explorer
from ..loader import NOFOLD, AnalysisError, EnumMember, Repo
from ..report import Check, canon

M = "xknx.io.routing"


def hook_consts(repo, fi):
    def hook(e, env):
        if isinstance(e, ast.Name):
            v = repo.module_const(M, e.id)
            if v is not NOFOLD and isinstance(v, (int, float)):
                return v
        if isinstance(e, ast.Attribute):
            v = repo.fold(e, fi.module, fi.cls)
            if isinstance(v, EnumMember):
                return v
        return UNKNOWN
    return hook


def send_cemi(chk: Check, repo: Repo) -> None:
    fi = repo.func(M, "Routing.send_cemi")
    chk.unit(fi)
    cfg = CFG(fi.node)
    exc = ExcTable(repo)
    box = {}

    def cm(c: ast.Call, env):
        n = call_name(c)
        am = box["am"]
        if n == "RoutingIndication":
            return [Outcome(f"BUILD_INDICATION(code={env.get('cemi.code')!r})", Obj("RoutingIndication", "ri"))]
        if n == "self._send_knxipframe":
            return [Outcome("SEND", None), Outcome("SEND:fails", Raise("CommunicationError"))]
        if n == "self.cemi_received_callback":
            return [Outcome(f"LOCAL_CON(code={env.get('cemi.code')!r})", None)]
        if n == "KNXIPFrame.init_from_body" or n == "cemi.to_knx":
            return [Outcome(None, Obj("bytes", "x"))]
        return None

    am = AbsMachine(cfg, exc, cm, hook_consts(repo, fi))
    box["am"] = am
    paths = Explorer(cfg, repo, am.step).run(cfg.entry, [], {})
    got = {(tuple(t for t in p.env.get("trace", ()) if not t.startswith("raise:")), p.end_kind) for p in paths}
    IND = repr(EnumMember("xknx.cemi.const:CEMIMessageCode", "L_DATA_IND")); CON = repr(EnumMember("xknx.cemi.const:CEMIMessageCode", "L_DATA_CON"))
    want = {((f"BUILD_INDICATION(code={IND})", "SEND", f"LOCAL_CON(code={CON})"), "exit"), ((f"BUILD_INDICATION(code={IND})", "SEND:fails"), "raise")}
    chk.ob("send-then-one-confirmation", fi.site(), got == want, f"send_cemi traces {sorted(got)}; reference {sorted(want)}", key="send-cemi" + ("" if got == want else f"|{sorted(got)}"))
    sends = [n for n in cfg.nodes if n.kind == "stmt" and n.ast is not None and any(call_name(c) == "self._send_knxipframe" for c in calls(n.ast))]
    chk.ob("send-inside-throttle", fi.site(), len(sends) == 1 and any(w == "self._flow_control.throttle()" for w in enclosing_with_items(sends[0].withs)), "the RoutingIndication is sent inside `async with self._flow_control.throttle()`", key="send-inside-throttle")
    builders = [f.qualname for f, c in call_sites(repo, "RoutingIndication") if f.module.name.startswith("xknx.io")]
    chk.ob("indication-producers", fi.site(), builders == ["Routing.send_cemi"], f"RoutingIndication is constructed for sending only in {builders}", key="indication-producers")
    senders = [f.qualname for f, c in call_sites(repo, "_send_knxipframe") if f.module.name == M]
    chk.ob("indication-producers", fi.site(), senders == ["Routing.send_cemi"], f"_send_knxipframe callers: {senders}", key="send-callers")
    for sub in repo.subclasses(repo.cls(M, "Routing"), strict=True):
        chk.ob("send-not-overridden", fi.site(), "send_cemi" not in sub.methods, f"{sub.name} does not override send_cemi", key=f"send-override|{sub.name}")


def throttle(chk: Check, repo: Repo) -> None:
    fi = repo.func(M, "_RoutingFlowControl.throttle")
    chk.unit(fi)
    wt = repo.module_const(M, "ROUTING_INDICATION_WAIT_TIME")
    chk.ob("spacing-constant", fi.site(), wt == 0.02, f"ROUTING_INDICATION_WAIT_TIME folds to {wt!r} (20 ms)", key="spacing-constant")
    chk.ob("throttle-is-contextmanager", fi.site(), any("asynccontextmanager" in d for d in fi.decorators), "throttle is an asynccontextmanager", key="throttle-cm")
    cfg = CFG(fi.node)
    exc = ExcTable(repo)
    for label, last in (("5 ms ago", 99.995), ("exactly 20 ms ago", 99.98), ("long ago", 50.0)):
        box = {}

        def cm(c, env):
            n = call_name(c)
            if n == "self._loop.time":
                return [Outcome(None, 100.0)]
            if n == "asyncio.sleep":
                v = box["am"].ev(c.args[0], env, {})
                return [Outcome(f"SLEEP({round(v, 6) if isinstance(v, float) else v})", None)]
            if n == "self._ready.wait":
                return [Outcome("WAIT_READY", None)]
            return None

        am = AbsMachine(cfg, exc, cm, hook_consts(repo, fi))
        box["am"] = am
        paths = Explorer(cfg, repo, am.step).run(cfg.entry, [], {"#trace_yields": True, "self._last_sent_routing_indication_time": last})
        got = {(tuple(p.env.get("trace", ())), p.env.get("self._last_sent_routing_indication_time"), p.end_kind) for p in paths}
        elapsed = 100.0 - last
        pre = (f"SLEEP({round(0.02 - elapsed, 6)})",) if elapsed < 0.02 else ()
        want = {(pre + ("WAIT_READY", "YIELD(None)"), 100.0, "exit")}
        chk.ob("throttle-cell", fi.site(), got == want, f"last indication {label}: {sorted(map(str, got))}; reference {sorted(map(str, want))}", key=f"throttle|{label}" + ("" if got == want else f"|{sorted(map(str, got))}"))


def ready_flag(chk: Check, repo: Repo) -> None:
    sites = []
    for f in repo.all_functions():
        if f.module.name != M:
            continue
        for c in calls(f.node):
            n = call_name(c)
            if n in ("self._ready.set", "self._ready.clear"):
                sites.append((f, c, n.rsplit(".", 1)[1]))
    chk.floor("ready flag set/clear sites", len(sites), 3)
    for f, c, kind in sites:
        ok = (kind == "clear" and f.qualname == "_RoutingFlowControl.handle_routing_busy") or (kind == "set" and f.qualname in ("_RoutingFlowControl.__init__", "_RoutingFlowControl._resume_sending"))
        chk.ob("ready-flag-owner", f.site(c), ok, f"_ready.{kind}() in {f.qualname}", key=f"ready|{kind}|{f.qualname}")
    rs = repo.func(M, "_RoutingFlowControl._resume_sending")
    chk.unit(rs)
    cfg = CFG(rs.node)
    exc = ExcTable(repo)

    from ..astx import inline_locals

    def cm(c, env):
        n = call_name(c)
        if n == "asyncio.sleep":
            return [Outcome(f"SLEEP({ast.unparse(inline_locals(rs.node, c.args[0]))})", None)]  # locals inlined: the label does not depend on their names
        if n == "self._ready.set":
            return [Outcome("SET_READY", None)]
        if n == "random.random":
            return [Outcome(None, UNKNOWN)]
        return None

    am = AbsMachine(cfg, exc, cm, hook_consts(repo, rs))
    paths = Explorer(cfg, repo, am.step, max_steps=200).run(cfg.entry, [], {"self._received_busy_frames": 0, "self._wait_time_ms": 100})
    firsts = {tuple(p.env.get("trace", ())[:2]) for p in paths}
    sleeps = [c for c in calls(rs.node) if call_name(c) == "asyncio.sleep"]
    first_arg = inline_locals(rs.node, sleeps[0].args[0]) if sleeps else None

    def factors(e: ast.AST) -> list[ast.AST]:
        if isinstance(e, ast.BinOp) and isinstance(e.op, ast.Mult):
            return factors(e.left) + factors(e.right)
        return [e]
    base_ok = ext_ok = False
    ext_txt = "?"
    if isinstance(first_arg, ast.BinOp) and isinstance(first_arg.op, ast.Add):
        for a, b in ((first_arg.left, first_arg.right), (first_arg.right, first_arg.left)):
            if ast.unparse(a) == "self._wait_time_ms / 1000":
                base_ok = True
                ext_txt = ast.unparse(b)
                fs = factors(b)
                kinds_ = []
                for f_ in fs:
                    v = repo.fold(f_, rs.module, rs.cls)
                    if isinstance(f_, ast.Call) and call_name(f_) == "random.random" and not f_.args:
                        kinds_.append("random")
                    elif ast.unparse(f_) == "self._received_busy_frames":
                        kinds_.append("busy")
                    elif isinstance(v, (int, float)) and not isinstance(v, bool) and v >= 0:
                        kinds_.append("const")
                    else:
                        kinds_.append("?")
                ext_ok = "?" not in kinds_ and kinds_.count("random") == 1 and kinds_.count("busy") == 1
    want_first = f"SLEEP({ast.unparse(first_arg)})" if first_arg is not None else "?"
    chk.ob("resume-after-wait", rs.site(), base_ok and firsts == {(want_first, "SET_READY")}, f"_resume_sending starts with {sorted(firsts)}; required sleep(wait_time_ms/1000 + extension) then ready.set()", key="resume-after-wait")
    chk.ob("extension-non-negative", rs.site(), ext_ok and repo.module_const(M, "BUSY_RANDOM_TIME_FACTOR") == 0.05, f"random extension = {ext_txt} (product of non-negative factors: one random.random(), the busy-frame count, constants; BUSY_RANDOM_TIME_FACTOR = 0.05)", key="extension")
    ws = [w for w in attr_writes(repo, "_received_busy_frames", include_mutators=False) if w.func.module.name == M]
    ok = all((w.kind == "assign" and w.func.name == "__init__") or (w.kind == "augassign" and ((w.func.name == "handle_routing_busy" and isinstance(w.stmt.op, ast.Add)) or (w.func.name == "_resume_sending" and isinstance(w.stmt.op, ast.Sub)))) for w in ws)
    chk.ob("busy-counter-writers", rs.site(), ok and len(ws) == 3, f"_received_busy_frames: {[(w.func.name, canon(w.stmt)) for w in ws]}", key="busy-counter")


def busy_table(chk: Check, repo: Repo) -> None:
    fi = repo.func(M, "_RoutingFlowControl.handle_routing_busy")
    chk.unit(fi)
    cfg = CFG(fi.node)
    exc = ExcTable(repo)
    p0 = fi.node.args.args[1].arg
    for label, start, cur_ms, new_ms in (("no pause running", None, 0, 80), ("50 ms remaining, announces 20", 99.95, 100, 20), ("50 ms remaining, announces 50", 99.95, 100, 50), ("50 ms remaining, announces 80", 99.95, 100, 80)):
        for old_task in (None, Obj("Task", "old")):
            def cm(c, env):
                n = call_name(c)
                if n == "self._loop.time":
                    return [Outcome(None, 100.0)]
                if n == "self._ready.clear":
                    return [Outcome("CLEAR_READY", None)]
                if n == "self._timer_task.cancel":
                    return [Outcome("CANCEL_TIMER", None)]
                if n == "asyncio.create_task":
                    return [Outcome(f"SPAWN({ast.unparse(c.args[0])})", Obj("Task", "new"))]
                if n.startswith("logger.") or n == "round":
                    return [Outcome(None, None)]
                return None
            am = AbsMachine(cfg, exc, cm, hook_consts(repo, fi))
            env = {f"{p0}.wait_time": new_ms, "self._wait_start_time": start, "self._wait_time_ms": cur_ms, "self._last_busy_frame_time": 99.0, "self._received_busy_frames": 0, "self._timer_task": old_task}
            paths = Explorer(cfg, repo, am.step).run(cfg.entry, [], env)
            got = {(tuple(p.env.get("trace", ())), p.env.get("self._wait_time_ms"), p.env.get("self._wait_start_time"), repr(p.env.get("self._timer_task")), p.env.get("self._last_busy_frame_time")) for p in paths}
            restart = start is None or (cur_ms - (100.0 - start) * 1000) < new_ms
            if restart:
                want = {(("CLEAR_READY",) + (("CANCEL_TIMER",) if old_task else ()) + ("SPAWN(self._resume_sending())",), new_ms, 100.0, repr(Obj("Task", "new")), 100.0)}
            else:
                want = {(("CLEAR_READY",), cur_ms, start, repr(old_task), 100.0)}
            # float tolerance for the remaining-time arithmetic: compare with rounding
            chk.ob("busy-cell", fi.site(), got == want, f"{label}, timer task {'running' if old_task else 'none'}: {sorted(map(str, got))}; reference {sorted(map(str, want))}", key=f"busy|{label}|{bool(old_task)}" + ("" if got == want else f"|{sorted(map(str, got))}"))
    hf = repo.func(M, "Routing._handle_frame")
    chk.unit(hf)
    ok = any(call_name(c) == "self._flow_control.handle_routing_busy" for c in calls(hf.node))
    chk.ob("busy-frames-reach-flow-control", hf.site(), ok, "RoutingBusy frames are handed to the flow control", key="busy-dispatch")


def throttle_is_atomic(chk: Check, repo: Repo) -> None:
    """The spacing is a check-then-act on shared state (read the last transmission time, sleep, wait for the ready flag,
    transmit, store the new time) with awaits in between: senders that arrive together (the telegram queue is serial,
    but management frames are sent from background tasks) would all measure from the same last transmission and send
    back to back.  Every statement of throttle() that awaits, yields to the sender or touches the last-transmission
    time is inside one `async with <lock>` whose lock is an asyncio.Lock created once in __init__."""
    fc = repo.cls(M, "_RoutingFlowControl")
    f = fc.methods["throttle"]
    chk.unit(f)
    cfg = CFG(f.node)
    locks = {ast.unparse(n.targets[0]) for n in walk_local(fc.methods["__init__"].node) if isinstance(n, ast.Assign) and len(n.targets) == 1 and isinstance(n.value, ast.Call) and call_name(n.value) == "asyncio.Lock"}
    critical = []
    for n in cfg.nodes:
        if n.ast is None or n.kind not in ("stmt", "test"):
            continue
        touches = any(isinstance(x, ast.Attribute) and x.attr == "_last_sent_routing_indication_time" for x in ast.walk(n.ast))
        suspends = any(isinstance(x, (ast.Await, ast.Yield)) for x in ast.walk(n.ast))
        if touches or suspends:
            held = {ast.unparse(i.context_expr) for w in n.withs if isinstance(w, ast.AsyncWith) for i in w.items}
            critical.append((n, held & locks))
    chk.count("throttle statements in the spacing protocol", len(critical))
    chk.floor("throttle statements in the spacing protocol", len(critical), 4)
    common = set.intersection(*(h for _, h in critical)) if critical else set()
    bad = [ast.unparse(n.ast)[:60] for n, h in critical if not h]
    chk.ob("spacing-check-and-send-are-one-critical-section", f.site(), bool(common), f"throttle(): {len(critical)} statements read/await/yield/store under lock {sorted(common) or 'NONE'}" + (f"; outside any lock: {bad} — concurrent senders measure from the same last transmission and transmit together" if not common else ""), key="throttle|atomic")


def run(chk: Check, repo: Repo) -> None:
    throttle_is_atomic(chk, repo)
    send_cemi(chk, repo)
    throttle(chk, repo)
    ready_flag(chk, repo)
    busy_table(chk, repo)
    chk.rule("E4/E7 abstract path enumeration of send_cemi, throttle, _resume_sending and handle_routing_busy over boundary cells; E5 census of ready-flag set/clear sites and indication producers")
    chk.assume("timing inequalities (pause measured on the event-loop clock, 20 ms spacing under concurrent senders) are clock quantities and are not decided; only the control structure that implements them is")
