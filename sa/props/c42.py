"""C42 — timed resets and press counters behave as configured (structural part).

"Exactly that long after the last 'on'" and "within the timeout of each other" compare clock readings taken at run time;
those durations are NOT decided.  Decided are the control-structure conditions they rest on (each necessary):

 (a) the reset task of Switch and BinarySensor is a one-shot Task that waits the configured `reset_after` before it
     runs (`wait_before_start=reset_after`, no repeat) and whose target turns the device off (Switch.set_off /
     BinarySensor._set_internal_state(False)); it exists iff reset_after is given.
 (b) every processed telegram that leaves the device 'on' (re)starts that task through the task registry - starting a
     registered task replaces the running instance (C36), which is what restarts the timer on a later 'on' - and a
     telegram that leaves it 'off' does not start it.  For the binary sensor both entry points (write and response).
 (c) the press counter: `bump_and_get_counter` as a decision table over {first telegram, within the context timeout,
     outside it} x {state}: within -> the counter of that state is incremented and the other left alone; otherwise the
     counter of that state is 1 and the other 0; "within" is `now - last < context_timeout` with `last` updated to `now`
     on every call (consecutive telegrams, each measured against its predecessor).
 (d) the context task waits the context timeout, then publishes the counters and resets both to 0.
"""

from __future__ import annotations

import ast

from ..absmachine import AbsMachine, Outcome, UNKNOWN
from ..astx import call_name, calls, walk_local
from ..cfg import CFG
from ..exctable import ExcTable
from ..explore import Explorer
from ..loader import AnalysisError, Repo
from ..report import Check

SW = "xknx.devices.switch"
BS = "xknx.devices.binary_sensor"


def _task_calls(fn) -> list[ast.Call]:
    return [c for c in calls(fn.node) if call_name(c) == "Task"]


def reset_task(chk: Check, repo: Repo, mod: str, cname: str, off_targets: tuple[str, ...]) -> None:
    ini = repo.func(mod, f"{cname}.__init__")
    chk.unit(ini)
    cfg = CFG(ini.node)
    stores = [n for n in cfg.nodes if n.kind == "stmt" and isinstance(n.ast, (ast.Assign, ast.AnnAssign)) and any(ast.unparse(t) == "self._reset_task" for t in (n.ast.targets if isinstance(n.ast, ast.Assign) else [n.ast.target]))]
    tasks = [c for n in stores for c in ast.walk(n.ast) if isinstance(c, ast.Call) and call_name(c) == "Task"]
    if len(tasks) != 1:
        raise AnalysisError(f"{cname}.__init__: reset Task not found")
    kw = {k.arg: k.value for k in tasks[0].keywords}
    tgt = ast.unparse(kw["target"]) if "target" in kw else "?"
    # the target turns the device off: one of the known forms, or a method of the class that does
    ci = repo.cls(mod, cname)

    def turns_off(t: str) -> tuple[bool, bool]:
        """(turns off, resets the remote value as well)"""
        if t in off_targets:
            return True, t == "self.set_off"  # set_off sends a telegram that loops back through the remote value
        if t.startswith("self.") and t.count(".") == 1:
            mth = repo.lookup_method(ci, t[5:])
            if mth is not None:
                cs = [(call_name(c), [ast.unparse(a) for a in c.args]) for c in calls(mth.node)]
                via_rv = any(n_.endswith(".update_value") and a_ == ["False"] for n_, a_ in cs)
                direct = any(n_ == "self._set_internal_state" and a_ == ["False"] for n_, a_ in cs)
                # the plain form: the remote value's value and the device state assigned False, listeners told
                stores = {ast.unparse(t_): ast.unparse(n_.value) for n_ in walk_local(mth.node) if isinstance(n_, ast.Assign) for t_ in n_.targets}
                rv_store = any(k.endswith("remote_value.value") and v == "False" for k, v in stores.items())
                state_store = stores.get("self.state") == "False" and any(n_ == "self.after_update" for n_, _ in cs)
                return (via_rv or direct or state_store), (via_rv or rv_store)
        return False, False

    def reaches_counter(start: str) -> list[str]:
        """methods on the way from `start` to the press counter (bump_and_get_counter / a start of the context task),
        following self-calls, partial(self.m, ..) and - through `<remote value>.update_value(..)` - the
        after_update_cb handed to the remote value in __init__"""
        cbs = [k.value.attr for c in calls(ini.node) for k in c.keywords if k.arg == "after_update_cb" and isinstance(k.value, ast.Attribute) and ast.unparse(k.value.value) == "self"]
        seen: dict[str, str | None] = {start: None}
        work = [start]
        while work:
            m = work.pop()
            mth = repo.lookup_method(ci, m)
            if mth is None:
                continue
            hit = m == "bump_and_get_counter" or any(call_name(c).endswith("start_task") and c.args and ast.unparse(c.args[0]) == "self._context_task" for c in calls(mth.node))
            if hit:
                path = [m]
                while seen[path[-1]] is not None:
                    path.append(seen[path[-1]])
                return path[::-1]
            nxt: list[str] = []
            for c in calls(mth.node):
                n_ = call_name(c)
                if n_.startswith("self.") and n_.count(".") == 1:
                    nxt.append(n_[5:])
                if n_.endswith(".update_value"):
                    nxt += cbs
                for a in list(c.args) + [k.value for k in c.keywords]:
                    if isinstance(a, ast.Attribute) and ast.unparse(a.value) == "self" and repo.lookup_method(ci, a.attr) is not None:
                        nxt.append(a.attr)
            for x in nxt:
                if x not in seen:
                    seen[x] = m
                    work.append(x)
        return []
    off_ok, rv_ok = turns_off(tgt)
    if repo.lookup_method(ci, "bump_and_get_counter") is not None:
        start = tgt[5:] if tgt.startswith("self.") and tgt.count(".") == 1 else (ast.unparse(kw["target"].args[0])[5:] if isinstance(kw.get("target"), ast.Call) and call_name(kw["target"]) == "partial" and kw["target"].args else "")
        path = reaches_counter(start) if start else ["?"]
        chk.ob("timed-reset-is-not-counted-as-a-telegram", ini.site(tasks[0]), not path, f"{cname}: the reset target {tgt} " + ("does not reach the press counter" if not path else f"reaches the press counter ({' -> '.join(path)}): the timer is counted like a telegram - two 'on' telegrams further apart than the context timeout are joined by the reset between them, one 'off' telegram is reported as a double 'off'"), key=f"reset-counted|{cname}")
    ok = isinstance(kw.get("wait_before_start"), ast.Name) and kw["wait_before_start"].id == "reset_after" and "repeat_after" not in kw and "restart_after_reconnect" not in kw and off_ok
    # ... and takes the remote value along: a reset that only changes the device's own state leaves the remote value
    # 'on' - the next 'on' that arrives as a read response is no change for it and is dropped (no 'on', no new timer)
    chk.ob("timed-reset-resets-the-remote-value-too", ini.site(tasks[0]), rv_ok, f"{cname}: reset target {tgt} " + ("also brings the remote value to 'off'" if rv_ok else "changes the device state only - the remote value keeps 'on' and swallows the next 'on' response"), key=f"reset-rv|{cname}")
    chk.ob("reset-task-waits-reset-after-then-turns-off", ini.site(tasks[0]), ok, f"{cname}: reset Task(target={tgt}, wait_before_start={ast.unparse(kw.get('wait_before_start', ast.Constant(None)))}" + (", one shot)" if "repeat_after" not in kw else f", repeat_after={ast.unparse(kw['repeat_after'])})"), key=f"reset-task|{cname}")
    # created iff reset_after is given; None otherwise
    mf = cfg.must_facts()
    cond_ok = False
    for n in stores:
        v = n.ast.value
        if isinstance(v, ast.IfExp):
            t = ast.unparse(v.test)
            cond_ok = t in ("reset_after is not None",) and isinstance(v.orelse, ast.Constant) and v.orelse.value is None and any(isinstance(c, ast.Call) and call_name(c) == "Task" for c in ast.walk(v.body))
        elif any(isinstance(c, ast.Call) and call_name(c) == "Task" for c in ast.walk(v)):
            cond_ok = any((a == "reset_after is not None" and val) or (a == "reset_after is None" and val is False) for a, val in mf[n.id])
    none_store = any(isinstance(n.ast.value, ast.Constant) and n.ast.value.value is None for n in stores) or any(isinstance(n.ast.value, ast.IfExp) for n in stores)
    chk.ob("reset-task-exists-iff-configured", ini.site(), cond_ok and none_store, f"{cname}: the reset task is created exactly when reset_after is not None (else None)", key=f"reset-task-cond|{cname}")


def restart_on_every_on(chk: Check, repo: Repo, mod: str, qual: str, state_expr: tuple[str, ...], via: str | None = None) -> None:
    f = repo.func(mod, qual)
    chk.unit(f)
    cfg = CFG(f.node)
    mf = cfg.must_facts()
    starts = [n for n in cfg.nodes if n.kind == "stmt" and n.ast is not None and any(call_name(c) == "self.xknx.task_registry.start_task" and c.args and ast.unparse(c.args[0]) == "self._reset_task" for c in calls(n.ast))]
    if via is not None:
        # the entry point delegates: every path on which the remote value processed the telegram calls `via`
        hit = [n.id for n in cfg.nodes if n.kind == "stmt" and n.ast is not None and any(call_name(c) == via for c in calls(n.ast))]
        tests = [n for n in cfg.nodes if n.kind == "test" and n.ast is not None and any(isinstance(c, ast.Call) and call_name(c).endswith(".process") for c in ast.walk(n.ast))]
        ok = len(tests) == 1 and bool(hit) and all(cfg.all_paths_hit(t, hit, ends=[cfg.exit], edge_ok=lambda a_, b_, lab: lab != "exc", include_start=True) for t, lab in tests[0].succ if lab == "true")
        chk.ob("every-processed-on-restarts-the-reset-timer", f.site(), ok, f"{qual}: every path on which the telegram was processed calls {via}", key=f"restart|{qual}")
        return
    ok = len(starts) == 1
    detail = "?"
    if ok:
        fs = mf[starts[0].id]
        has_task = any((a == "self._reset_task is not None" and v) or (a == "self._reset_task is None" and v is False) or (a == "self._reset_task" and v) for a, v in fs)
        is_on = any(a in state_expr and v for a, v in fs)
        extra = [(a, v) for a, v in fs if not ((a in ("self._reset_task is not None", "self._reset_task") and v) or (a == "self._reset_task is None" and v is False) or (a in state_expr and v) or a.endswith(".process(telegram)") or ".process(" in a)]
        ok = has_task and is_on and not extra
        detail = f"start_task(self._reset_task) under {sorted(fs)}"
    chk.ob("every-processed-on-restarts-the-reset-timer", f.site(), ok, f"{qual}: the reset task is (re)started exactly when it exists and the device is on after the telegram ({detail}) - nothing else decides it", key=f"restart|{qual}")


def counter_table(chk: Check, repo: Repo) -> None:
    f = repo.func(BS, "BinarySensor.bump_and_get_counter")
    chk.unit(f)
    inner = [n for n in f.node.body if isinstance(n, ast.FunctionDef)]
    if len(inner) != 1:
        raise AnalysisError("bump_and_get_counter: the context test function not found")
    w = inner[0]
    # (c1) the context test: first call -> False and remembers now; later: diff = now - last, last := now, diff < timeout
    wc = CFG(w)
    exc = ExcTable(repo)
    cells = []
    for label, last, now, timeout, want, want_last in (("first telegram", None, 100.0, 1.0, False, 100.0), ("0.4 s after the previous", 99.6, 100.0, 1.0, True, 100.0), ("2 s after the previous", 98.0, 100.0, 1.0, False, 100.0)):
        def cm(c, env, now=now):
            if call_name(c) == "time.time":
                return [Outcome(None, now)]
            if call_name(c) == "cast" and len(c.args) == 2:
                return [Outcome(None, box["am"].ev(c.args[1], env, {}))]
            return None
        box: dict = {}
        am = AbsMachine(wc, exc, cm)
        box["am"] = am
        paths = Explorer(wc, repo, am.step).run(wc.entry, [], {"self._last_set": last, "self._context_timeout": timeout})
        got = sorted({(p.env.get("#ret"), p.env.get("self._last_set")) for p in paths if p.end == wc.exit}, key=str)
        cells.append(label)
        chk.ob("context-window-cell", f.site(w), got == [(want, want_last)], f"{label}: (within, remembered time) = {got}; reference {[(want, want_last)]} (each telegram is measured against its predecessor)", key=f"window|{label}")
    # (c2) the counter update per cell
    fc = CFG(f.node)
    for within in (False, True):
        for state in (False, True):
            for on0, off0 in ((0, 0), (2, 1)):
                def cm2(c, env, within=within):
                    if call_name(c) == w.name:
                        return [Outcome(None, within)]
                    return None
                am2 = AbsMachine(fc, exc, cm2)
                p0 = f.node.args.args[1].arg
                paths = Explorer(fc, repo, am2.step).run(fc.entry, [], {p0: state, "self._count_set_on": on0, "self._count_set_off": off0})
                got = sorted({(p.env.get("self._count_set_on"), p.env.get("self._count_set_off"), p.env.get("#ret")) for p in paths if p.end == fc.exit}, key=str)
                if within:
                    want = (on0 + 1, off0, on0 + 1) if state else (on0, off0 + 1, off0 + 1)
                else:
                    want = (1, 0, 1) if state else (0, 1, 1)
                chk.ob("press-counter-cell", f.site(), got == [want], f"within={within} state={'on' if state else 'off'} counters before (on={on0}, off={off0}): (on, off, returned) = {got}; reference {[want]}", key=f"counter|{within}|{state}|{on0}")
    # (d) context task
    ini = repo.func(BS, "BinarySensor.__init__")
    ct = [c for c in _task_calls(ini) if any(k.arg == "target" and "_counter_task" in ast.unparse(k.value) for k in c.keywords)]
    kw = {k.arg: k.value for k in ct[0].keywords} if len(ct) == 1 else {}
    ok = len(ct) == 1 and isinstance(kw.get("wait_before_start"), ast.Name) and kw["wait_before_start"].id == "context_timeout" and "repeat_after" not in kw
    chk.ob("context-task-waits-the-context-timeout", ini.site(ct[0]) if ct else ini.site(), ok, "context Task(wait_before_start=context_timeout, one shot)", key="context-task")
    cf = repo.func(BS, "BinarySensor._counter_task")
    chk.unit(cf)
    cc = CFG(cf.node)
    zero = [n for n in cc.nodes if n.kind == "stmt" and isinstance(n.ast, ast.Assign) and isinstance(n.ast.value, ast.Constant) and n.ast.value.value == 0 and any(ast.unparse(t) in ("self._count_set_on", "self._count_set_off") for t in n.ast.targets)]
    ups = [n for n in cc.nodes if n.kind == "stmt" and n.ast is not None and any(call_name(c) == "self.after_update" for c in calls(n.ast))]
    names = {ast.unparse(t) for n in zero for t in n.ast.targets}
    ok2 = names == {"self._count_set_on", "self._count_set_off"} and len(ups) >= 2 and all(cc.dominates(ups[0].id, z.id) for z in zero) and any(all(cc.dominates(z.id, u.id) for z in zero) for u in ups[1:])
    chk.ob("context-end-publishes-then-resets", cf.site(), ok2, "_counter_task: callbacks see the counters, then both are reset to 0 and the callbacks run again", key="counter-task")
    # the counter is bumped and the context task (re)started together, on a state telegram of a counting sensor
    si = repo.func(BS, "BinarySensor._set_internal_state")
    chk.unit(si)
    sc = CFG(si.node)
    bumps = [n for n in sc.nodes if n.kind == "stmt" and n.ast is not None and any(call_name(c) == "self.bump_and_get_counter" for c in calls(n.ast))]
    st = [n for n in sc.nodes if n.kind == "stmt" and n.ast is not None and any(call_name(c) == "self.xknx.task_registry.start_task" and c.args and ast.unparse(c.args[0]) == "self._context_task" for c in calls(n.ast))]
    ok3 = len(bumps) == 1 and len(st) == 1 and sc.dominates(bumps[0].id, st[0].id)
    if ok3:
        arg = next(c for c in calls(bumps[0].ast) if call_name(c) == "self.bump_and_get_counter").args
        ok3 = len(arg) == 1 and ast.unparse(sc.symbolic(bumps[0].id, arg[0])) == si.node.args.args[1].arg
    chk.ob("counted-telegram-restarts-the-context-window", si.site(), ok3, "_set_internal_state bumps the counter with the new state and (re)starts the context task", key="bump-and-start")


def run(chk: Check, repo: Repo) -> None:
    reset_task(chk, repo, SW, "Switch", ("self.set_off",))
    reset_task(chk, repo, BS, "BinarySensor", ("partial(self._set_internal_state, False)",))
    restart_on_every_on(chk, repo, SW, "Switch.process_group_write", ("self.switch.value",))
    restart_on_every_on(chk, repo, BS, "BinarySensor._process_reset_after", ("self.state",))
    restart_on_every_on(chk, repo, BS, "BinarySensor.process_group_write", ("self.state",), via="self._process_reset_after")
    restart_on_every_on(chk, repo, BS, "BinarySensor.process_group_response", ("self.state",), via="self._process_reset_after")
    counter_table(chk, repo)
    chk.rule("construction-site rules for the reset / context Tasks; E4 must-facts and must-pass-through on the telegram entry points; E7 decision tables of the context-window test and the counter update by abstract path enumeration over boundary cells")
    chk.assume("Task semantics (wait_before_start, replacement of a running instance by start_task) are C36's; the elapsed times themselves are clock quantities and are not decided")
