"""C31 — keyrings load exactly what they contain and reject tampering (structural part).

 (a) signature coverage (def-use flow in KeyringSAXContentHandler): every element contributes a start marker, its
     name, and — for every attribute in sorted order except exactly `xmlns` and `Signature` — the attribute name and
     value, each through `append_string` (length prefix + UTF-8 octets) into `self.output`; every element end
     contributes an end marker; the document end contributes the password hash.  So a change of an element name, an
     attribute name or value, or the element structure changes the hashed octets.  The exclusion list is compared
     for equality: a longer list would leave content unsigned, a shorter one would reject genuine files.
 (b) verify_keyring_signature compares the first 16 octets of SHA-256 over exactly that output with the root
     element's Signature attribute; the handler it feeds is built from the given password.
 (c) sync_load_keyring: with validate_signature set, a failed verification raises before any content is parsed.
 (d) decryption flow: each `decrypted_*` field is written only in its class's decrypt_attributes, from
     decrypt_aes128cbc(base64.b64decode(<the matching encrypted attribute>), password_hash, initialization_vector);
     Keyring.decrypt derives both from the password / the `created` attribute and visits interfaces, group addresses,
     devices and the backbone; the public getters for keys read the decrypted fields.
Does not decide that AES-CBC / PBKDF2 recover the right values (cipher arithmetic) nor the XML parsers' behaviour.
"""

from __future__ import annotations

import ast

from ..astx import attr_writes, call_name, calls, walk_local
from ..cfg import CFG
from ..loader import NOFOLD, AnalysisError, Repo
from ..report import Check

M = "xknx.secure.keyring"


def run(chk: Check, repo: Repo) -> None:
    h = repo.cls(M, "KeyringSAXContentHandler")
    bl = repo.const(h, "_attribute_blacklist")
    chk.ob("signature-excludes-exactly-xmlns-and-signature", f"{h.module.relpath}:{h.node.lineno}:{h.name}", isinstance(bl, tuple) and sorted(bl) == ["Signature", "xmlns"], f"_attribute_blacklist = {bl!r}", key="sig|blacklist")
    se, ee, ed, ap = (h.methods.get(n) for n in ("startElement", "endElement", "endDocument", "append_string"))
    if not all((se, ee, ed, ap)):
        raise AnalysisError("KeyringSAXContentHandler methods vanished")
    for f in (se, ee, ed, ap):
        chk.unit(f)
    # startElement: marker, name, then per attribute (sorted, filtered) name and value
    body = [s for s in se.node.body if not (isinstance(s, ast.Expr) and isinstance(s.value, ast.Constant))]
    name_p, attrs_p = se.node.args.args[1].arg, se.node.args.args[2].arg
    ok_marker = len(body) >= 3 and isinstance(body[0], ast.Expr) and ast.unparse(body[0].value) == "self.output.append(1)"
    ok_name = len(body) >= 3 and isinstance(body[1], ast.Expr) and ast.unparse(body[1].value) == f"self.append_string({name_p})"
    chk.ob("element-start-and-name-are-signed", se.site(), ok_marker and ok_name, f"startElement begins with `{ast.unparse(body[0]) if body else '?'}` and `{ast.unparse(body[1]) if len(body) > 1 else '?'}`", key="sig|start")
    loops = [s for s in body if isinstance(s, ast.For)]
    ok_loop = False
    detail = "no attribute loop"
    if len(loops) == 1:
        lp = loops[0]
        it = ast.unparse(lp.iter)
        tg = [ast.unparse(x) for x in lp.target.elts] if isinstance(lp.target, ast.Tuple) else []
        inner = lp.body
        if len(inner) == 1 and isinstance(inner[0], ast.If) and not inner[0].orelse:
            test = ast.unparse(inner[0].test)
            app = [ast.unparse(s.value) for s in inner[0].body if isinstance(s, ast.Expr)]
            ok_loop = it == f"sorted({attrs_p}.items())" and len(tg) == 2 and test == f"{tg[0]} not in self._attribute_blacklist" and app == [f"self.append_string({tg[0]})", f"self.append_string({tg[1]})"]
            detail = f"for {tg} in {it}: if {test}: {app}"
        else:
            detail = f"loop body {[type(x).__name__ for x in inner]}"
    chk.ob("every-attribute-name-and-value-is-signed", se.site(), ok_loop, f"startElement: {detail}", key="sig|attrs")
    eb = [s for s in ee.node.body if not (isinstance(s, ast.Expr) and isinstance(s.value, ast.Constant))]
    chk.ob("element-end-is-signed", ee.site(), len(eb) == 1 and ast.unparse(eb[0]) == "self.output.append(2)", f"endElement: {[ast.unparse(x) for x in eb]}", key="sig|end")
    db = [s for s in ed.node.body if not (isinstance(s, ast.Expr) and isinstance(s.value, ast.Constant))]
    chk.ob("password-hash-is-signed", ed.site(), len(db) == 1 and ast.unparse(db[0]) == "self.append_string(base64.b64encode(self.hashed_password))", f"endDocument: {[ast.unparse(x) for x in db]}", key="sig|password")
    ini = h.methods["__init__"]
    pw = ini.node.args.args[1].arg
    chk.ob("password-hash-is-signed", ini.site(), any(isinstance(s, ast.Assign) and ast.unparse(s.targets[0]) == "self.hashed_password" and ast.unparse(s.value) == f"hash_keyring_password({pw}.encode('utf-8'))" for s in walk_local(ini.node)), "hashed_password = hash_keyring_password(<given password>)", key="sig|password-src")
    # append_string: length prefix + the octets themselves
    asrc = [ast.unparse(s) for s in ap.node.body if not (isinstance(s, ast.Expr) and isinstance(s.value, ast.Constant))]
    vp = ap.node.args.args[1].arg
    ok = asrc[-2:] == [f"self.output.append(len({vp}))", f"self.output.extend({vp})"] and any(f"{vp} = {vp}.encode('utf-8')" in x for x in asrc)
    chk.ob("strings-enter-the-hash-with-length-prefix", ap.site(), ok, f"append_string: {asrc[-2:]}", key="sig|append")
    ws = sorted({w.func.qualname for w in attr_writes(repo, "output") if w.func.module.name == M})
    chk.ob("only-the-handler-writes-the-signed-octets", ap.site(), set(ws) <= {"KeyringSAXContentHandler.__init__", "KeyringSAXContentHandler.startElement", "KeyringSAXContentHandler.endElement", "KeyringSAXContentHandler.append_string"}, f"writers of `output`: {ws}", key="sig|writers")
    # (b) verify
    v = repo.func(M, "verify_keyring_signature")
    chk.unit(v)
    rets = [n for n in walk_local(v.node) if isinstance(n, ast.Return)]
    ok = len(rets) == 1 and ast.unparse(rets[0].value) in ("sha256_hash(handler.output)[:16] == signature", "signature == sha256_hash(handler.output)[:16]")
    chk.ob("signature-compared-with-hash-of-signed-octets", v.site(), ok, f"returns `{ast.unparse(rets[0].value) if rets else '?'}`", key="verify|compare")
    src = ast.unparse(v.node)
    ok = "handler = KeyringSAXContentHandler(password)" in src and "parser.setContentHandler(handler)" in src and "signature = base64.b64decode(element.attrib.get('Signature', ''))" in src
    chk.ob("signature-compared-with-hash-of-signed-octets", v.site(), ok, "handler built from the given password is the one the SAX parser feeds; the signature is the root element's Signature attribute", key="verify|wiring")
    # (c) load order
    ld = repo.func(M, "sync_load_keyring")
    chk.unit(ld)
    cfg = CFG(ld.node)
    mf = cfg.must_facts()
    parse_nodes = [n for n in cfg.nodes if n.ast is not None and n.kind in ("stmt", "with") and any(isinstance(x, ast.Call) and call_name(x) in ("parse", "keyring.parse_xml", "keyring.decrypt") for x in ast.walk(n.ast))]
    guard = [n for n in walk_local(ld.node) if isinstance(n, ast.If) and ast.unparse(n.test) == "validate_signature and (not verify_keyring_signature(_path, password))" and any(isinstance(x, ast.Raise) for x in n.body)]
    ok = bool(parse_nodes) and len(guard) == 1 and ld.node.body.index(guard[0]) < min(ld.node.body.index(s) for s in ld.node.body if any(p.ast is s or any(p.ast is y for y in ast.walk(s)) for p in parse_nodes))
    chk.ob("verification-precedes-parsing", ld.site(), ok, "sync_load_keyring raises on a failed verification before parse / parse_xml / decrypt are reached", key="load|order")
    # (d) decryption flow
    n_fields = 0
    for c in repo.all_classes():
        if c.module.name != M:
            continue
        dfields = [a for a in list(c.attrs) + list(c.annotations) if a.startswith("decrypted_")]
        for fld in sorted(set(dfields)):
            n_fields += 1
            ws_ = [w for w in attr_writes(repo, fld, include_mutators=False) if w.func.module.name == M and (w.receiver != "self" or (w.func.cls is not None and (repo.is_subclass(w.func.cls, c) or repo.is_subclass(c, w.func.cls))))]
            owners = {w.func.qualname for w in ws_}
            ok_owner = owners == {f"{c.name}.decrypt_attributes"}
            srcs = []
            ok_src = bool(ws_)
            for w in ws_:
                calls_ = [x for x in ast.walk(w.stmt) if isinstance(x, ast.Call) and call_name(x) == "decrypt_aes128cbc"]
                if len(calls_) != 1:
                    ok_src = False
                    continue
                a0, a1, a2 = (ast.unparse(x) for x in calls_[0].args[:3]) if len(calls_[0].args) >= 3 else ("?", "?", "?")
                enc = fld[len("decrypted_"):]
                srcs.append(a0)
                ok_src = ok_src and a0 == f"base64.b64decode(self.{enc})" and a1 == "password_hash" and a2 == "initialization_vector"
            chk.ob("decrypted-field-comes-from-its-own-ciphertext", f"{c.module.relpath}:{c.node.lineno}:{c.name}", ok_owner and ok_src, f"{c.name}.{fld}: written in {sorted(owners)} from {srcs}", key=f"decrypt|{c.name}.{fld}")
    chk.floor("decrypted fields", n_fields, 7)
    dk = repo.func(M, "Keyring.decrypt")
    chk.unit(dk)
    src = ast.unparse(dk.node)
    ok = "hashed_password = hash_keyring_password(password.encode('utf-8'))" in src and "initialization_vector = sha256_hash(self.created.encode('utf-8'))[:16]" in src and "chain(self.interfaces, self.group_addresses, self.devices)" in src and "self.backbone.decrypt_attributes(hashed_password, initialization_vector)" in src and "xml_element.decrypt_attributes(hashed_password, initialization_vector)" in src
    chk.ob("every-element-is-decrypted-with-the-derived-key", dk.site(), ok, "Keyring.decrypt derives key and IV from password / created and visits interfaces, group addresses, devices, backbone", key="decrypt|driver")
    gk = repo.func(M, "Keyring.get_data_secure_group_keys")
    chk.ob("getters-return-decrypted-values", gk.site(), "group_address.decrypted_key" in ast.unparse(gk.node) and ".key" not in ast.unparse(gk.node).replace("decrypted_key", ""), "get_data_secure_group_keys reads decrypted_key only", key="getter|group-keys")
    chk.rule("structural def-use rules over the SAX content handler (signature coverage), the verification and load functions (ordering) and the decrypt_attributes methods (ciphertext-to-field flow); ownership census of the signed buffer and of the decrypted fields")
    chk.assume("SHA-256 collision resistance; xml.sax reports every element and attribute it parses; AES-CBC / PBKDF2 are the cryptography package's")
