"""C31 — keyrings load exactly what they contain and reject tampering (structural part).

 (a) signature coverage (def-use flow in KeyringSAXContentHandler): every element contributes a start marker, its
     name, and — for every attribute in sorted order except exactly `xmlns` and `Signature` — the attribute name and
     value, each through `append_string` (length prefix + UTF-8 octets) into `self.output`; every element end
     contributes an end marker; the document end contributes the password hash.  So a change of an element name, an
     attribute name or value, or the element structure changes the hashed octets.  The exclusion list is compared
     for equality: a longer list would leave content unsigned, a shorter one would reject genuine files.
 (b) verify_keyring_signature compares the first 16 octets of SHA-256 over exactly that output with the root
     element's Signature attribute; the handler it feeds is built from the given password.
 (c) sync_load_keyring: with validate_signature set, a failed verification raises before any content is parsed.
 (d) decryption flow: each `decrypted_*` field is written only in its class's decrypt_attributes, from
     decrypt_aes128cbc(base64.b64decode(<the matching encrypted attribute>), password_hash, initialization_vector);
     Keyring.decrypt derives both from the password / the `created` attribute and visits interfaces, group addresses,
     devices and the backbone; the public getters for keys read the decrypted fields.
Does not decide that AES-CBC / PBKDF2 recover the right values (cipher arithmetic) nor the XML parsers' behaviour.
"""

from __future__ import annotations

import ast

from ..astx import attr_writes, call_name, calls, inline_locals, walk_local
from ..cfg import CFG
from ..loader import NOFOLD, AnalysisError, Repo
from ..report import Check

M = "xknx.secure.keyring"


class HandlerEval:
    """evaluates the content handler's methods on symbolic SAX events; records what is appended to `self.output`.
    Fragment: expression statements calling self.output.append / extend / self.append_string, `for k, v in
    sorted(attrs.items())`, `if x [not] in self._attribute_blacklist`, `isinstance(value, str)` / `.encode('utf-8')`,
    simple assignments."""

    def __init__(self, repo: Repo, cls, blacklist: tuple) -> None:
        self.repo, self.cls, self.blacklist = repo, cls, blacklist

    def call(self, name: str, args: list) -> list:
        fn = self.cls.methods[name].node
        env = dict(zip([a.arg for a in fn.args.args[1:]], args))
        trace: list = []
        self.block(fn.body, env, trace)
        return trace

    def ev(self, e: ast.AST, env: dict):
        if isinstance(e, ast.Constant):
            return e.value
        if isinstance(e, ast.Name):
            if e.id in env:
                return env[e.id]
            raise AnalysisError(f"KeyringSAXContentHandler: name {e.id} outside the fragment")
        if isinstance(e, ast.Attribute) and ast.unparse(e) == "self._attribute_blacklist":
            return self.blacklist
        if isinstance(e, ast.Attribute) and ast.unparse(e) == "self.hashed_password":
            return ("sym", "hashed_password")
        if isinstance(e, ast.Call):
            n = call_name(e)
            if n == "sorted" and len(e.args) == 1:
                return sorted(self.ev(e.args[0], env))
            if n.endswith(".items") and not e.args:
                return list(self.ev(e.func.value, env).items())  # type: ignore[attr-defined]
            if n == "isinstance" and len(e.args) == 2:
                v = self.ev(e.args[0], env)
                return isinstance(v, str) if ast.unparse(e.args[1]) == "str" else (isinstance(v, tuple) if ast.unparse(e.args[1]) == "bytes" else False)
            if n.endswith(".encode") and e.args and self.ev(e.args[0], env) in ("utf-8", "utf8"):
                v = self.ev(e.func.value, env)  # type: ignore[attr-defined]
                return ("utf8", v)
            if n == "base64.b64encode" and len(e.args) == 1:
                v = self.ev(e.args[0], env)
                return ("raw", f"b64({v[1]})") if isinstance(v, tuple) else ("raw", f"b64({v})")
            if n == "len" and len(e.args) == 1:
                v = self.ev(e.args[0], env)
                return ("len", v[1] if isinstance(v, tuple) else v)
            raise AnalysisError(f"KeyringSAXContentHandler: call {n} outside the fragment")
        if isinstance(e, ast.Compare) and len(e.ops) == 1 and isinstance(e.ops[0], (ast.In, ast.NotIn)):
            r = self.ev(e.left, env) in self.ev(e.comparators[0], env)
            return r if isinstance(e.ops[0], ast.In) else not r
        if isinstance(e, ast.UnaryOp) and isinstance(e.op, ast.Not):
            return not self.ev(e.operand, env)
        if isinstance(e, ast.BinOp) and isinstance(e.op, (ast.BitAnd, ast.Mod)):
            # a length reduced to one octet (`len(v) & 0xFF`, `len(v) % 256`) is still "the length of v" for the coverage
            # argument: which attribute's length and octets enter the signed stream, in which order
            l, r = self.ev(e.left, env), self.ev(e.right, env)
            for a, b in ((l, r), (r, l)):
                if isinstance(a, tuple) and a and a[0] == "len" and isinstance(b, int) and ((isinstance(e.op, ast.BitAnd) and b == 0xFF) or (isinstance(e.op, ast.Mod) and b == 256 and a is l)):
                    return a
        raise AnalysisError(f"KeyringSAXContentHandler: expression {type(e).__name__} outside the fragment")

    def block(self, stmts, env: dict, trace: list) -> None:
        for st in stmts:
            if isinstance(st, ast.Expr):
                if isinstance(st.value, ast.Constant):
                    continue
                c = st.value
                if not isinstance(c, ast.Call):
                    raise AnalysisError("KeyringSAXContentHandler: expression statement")
                n = call_name(c)
                if n == "self.output.append":
                    v = self.ev(c.args[0], env)
                    trace.append(("byte", v) if isinstance(v, int) else v)
                elif n == "self.output.extend":
                    trace.append(self.ev(c.args[0], env))
                elif n == "self.append_string":
                    sub = self.cls.methods["append_string"].node
                    self.block(sub.body, {sub.args.args[1].arg: self.ev(c.args[0], env)}, trace)
                elif n == "super().__init__":
                    continue
                else:
                    raise AnalysisError(f"KeyringSAXContentHandler: call {n}")
                continue
            if isinstance(st, ast.Assign) and len(st.targets) == 1 and isinstance(st.targets[0], ast.Name):
                env[st.targets[0].id] = self.ev(st.value, env)
                continue
            if isinstance(st, ast.If):
                self.block(st.body if self.ev(st.test, env) else st.orelse, env, trace)
                continue
            if isinstance(st, ast.For) and isinstance(st.target, ast.Tuple) and len(st.target.elts) == 2:
                for k, v in self.ev(st.iter, env):
                    env[st.target.elts[0].id], env[st.target.elts[1].id] = k, v  # type: ignore[attr-defined]
                    self.block(st.body, env, trace)
                continue
            raise AnalysisError(f"KeyringSAXContentHandler: statement {type(st).__name__} outside the fragment")


def repeated_elements_accumulate(chk: Check, repo: Repo) -> None:
    """"load exactly what they contain": what a loop over child elements collects under a key read from the child is
    accumulated - `self.<dict>[<child key>] = <child value>` lets a second element with the same key replace what the
    first (signed) one said (the senders of a group address listed twice for one interface)."""
    n = 0
    for f in repo.all_functions():
        if f.module.name != M:
            continue
        for loop in [x for x in walk_local(f.node) if isinstance(x, ast.For) and "childNodes" in ast.unparse(x.iter)]:
            for st in [x for b in loop.body for x in ast.walk(b)]:
                if isinstance(st, ast.Assign) and len(st.targets) == 1 and isinstance(st.targets[0], ast.Subscript) and ast.unparse(st.targets[0].value).startswith("self."):
                    n += 1
                    chk.ob("repeated-elements-accumulate", f.site(st), False, f"{f.qualname}: `{ast.unparse(st)[:90]}` inside the loop over child elements overwrites the entry of an element seen before", key=f"accumulate|{f.qualname}|{ast.unparse(st.targets[0].value)}")
                elif isinstance(st, ast.Call) and isinstance(st.func, ast.Attribute) and st.func.attr in ("append", "extend") and "self." in ast.unparse(st.func.value):
                    n += 1
                    chk.ob("repeated-elements-accumulate", f.site(st), True, f"{f.qualname}: `{ast.unparse(st)[:90]}` accumulates", key=f"accumulate|{f.qualname}|{ast.unparse(st.func.value)[:60]}")
    chk.floor("collections filled from child elements", n, 4)


def run(chk: Check, repo: Repo) -> None:
    repeated_elements_accumulate(chk, repo)
    from .common_rules import kdf_parameters
    kdf_parameters(chk, repo, ["xknx.secure.keyring:hash_keyring_password"])
    h = repo.cls(M, "KeyringSAXContentHandler")
    bl = repo.const(h, "_attribute_blacklist")
    chk.ob("signature-excludes-exactly-xmlns-and-signature", f"{h.module.relpath}:{h.node.lineno}:{h.name}", isinstance(bl, tuple) and sorted(bl) == ["Signature", "xmlns"], f"_attribute_blacklist = {bl!r}", key="sig|blacklist")
    se, ee, ed, ap = (h.methods.get(n) for n in ("startElement", "endElement", "endDocument", "append_string"))
    if not all((se, ee, ed, ap)):
        raise AnalysisError("KeyringSAXContentHandler methods vanished")
    for f in (se, ee, ed, ap):
        chk.unit(f)
    # abstract evaluation of the handler on symbolic SAX events: the trace of what enters `self.output`
    attrs = [("zeta", "<v:zeta>"), ("Signature", "<v:Signature>"), ("alpha", "<v:alpha>"), ("xmlns", "<v:xmlns>"), ("Xattr", "<v:Xattr>")]
    want_attrs = sorted(a for a in attrs if a[0] not in ("xmlns", "Signature"))
    ev_ = HandlerEval(repo, h, tuple(bl) if isinstance(bl, tuple) else ())
    t_start = ev_.call("startElement", ["<name>", dict(attrs)])
    want = [("byte", 1), ("len", "<name>"), ("utf8", "<name>")]
    for k, v in want_attrs:
        want += [("len", k), ("utf8", k), ("len", v), ("utf8", v)]
    chk.ob("element-start-name-and-attributes-are-signed", se.site(), t_start == want, f"startElement(<name>, {{zeta, Signature, alpha, xmlns, Xattr}}) appends {t_start}; required {want} (marker, name, then name and value of every attribute but xmlns/Signature in sorted order, each length-prefixed)", key="sig|start")
    t_end = ev_.call("endElement", ["<name>"])
    chk.ob("element-end-is-signed", ee.site(), t_end == [("byte", 2)], f"endElement appends {t_end}", key="sig|end")
    t_doc = ev_.call("endDocument", [])
    chk.ob("password-hash-is-signed", ed.site(), t_doc == [("len", "b64(hashed_password)"), ("raw", "b64(hashed_password)")], f"endDocument appends {t_doc}", key="sig|password")
    ini = h.methods["__init__"]
    pw = ini.node.args.args[1].arg
    hp = [s_ for s_ in walk_local(ini.node) if isinstance(s_, ast.Assign) and ast.unparse(s_.targets[0]) == "self.hashed_password"]
    ok = len(hp) == 1 and isinstance(hp[0].value, ast.Call) and call_name(hp[0].value) == "hash_keyring_password" and any(isinstance(x, ast.Name) and x.id == pw for x in ast.walk(hp[0].value))
    chk.ob("password-hash-is-signed", ini.site(), ok, "hashed_password = hash_keyring_password(<the given password>)", key="sig|password-src")
    ws = sorted({w.func.qualname for w in attr_writes(repo, "output") if w.func.module.name == M})
    chk.ob("only-the-handler-writes-the-signed-octets", ap.site(), set(ws) <= {"KeyringSAXContentHandler.__init__", "KeyringSAXContentHandler.startElement", "KeyringSAXContentHandler.endElement", "KeyringSAXContentHandler.append_string"}, f"writers of `output`: {ws}", key="sig|writers")
    # (b) verify
    v = repo.func(M, "verify_keyring_signature")
    chk.unit(v)
    rets = [n for n in walk_local(v.node) if isinstance(n, ast.Return)]
    pw = v.node.args.args[1].arg
    hexpr = sexpr = None
    shape = "?"
    if len(rets) == 1 and rets[0].value is not None:
        r = rets[0].value
        pair = None
        if isinstance(r, ast.Compare) and len(r.ops) == 1 and isinstance(r.ops[0], ast.Eq):
            pair, shape = (r.left, r.comparators[0]), "=="
        elif isinstance(r, ast.Call) and call_name(r).split(".")[-1] == "compare_digest" and len(r.args) == 2:
            pair, shape = (r.args[0], r.args[1]), "compare_digest"
        else:
            shape = f"`{ast.unparse(r)[:80]}` (not an equality of the two octet strings)"
        if pair is not None:
            for a, b in (pair, pair[::-1]):
                ia = inline_locals(v.node, a)
                if isinstance(ia, ast.Subscript) and isinstance(ia.slice, ast.Slice):
                    hexpr, sexpr = a, b
    ok_hash = False
    hname = None
    if hexpr is not None:
        ia = inline_locals(v.node, hexpr, keep_calls=("KeyringSAXContentHandler",))
        sl = ia.slice
        lo = repo.fold(sl.lower, v.module, None) if sl.lower is not None else 0
        hi = repo.fold(sl.upper, v.module, None) if sl.upper is not None else None
        inner = ia.value
        if lo == 0 and hi == 16 and sl.step is None and isinstance(inner, ast.Call) and call_name(inner) == "sha256_hash" and len(inner.args) == 1 and isinstance(inner.args[0], ast.Attribute) and inner.args[0].attr == "output" and isinstance(inner.args[0].value, ast.Name):
            hname = inner.args[0].value.id
            ok_hash = True
    ok_sig = False
    if sexpr is not None:
        isx = inline_locals(v.node, sexpr)
        if isinstance(isx, ast.Call) and call_name(isx).split(".")[-1] == "b64decode" and isx.args:
            src_ = isx.args[0]
            key = None
            if isinstance(src_, ast.Call) and isinstance(src_.func, ast.Attribute) and src_.func.attr == "get" and src_.args and isinstance(src_.func.value, ast.Attribute) and src_.func.value.attr == "attrib":
                key, root = repo.fold(src_.args[0], v.module, None), src_.func.value.value
            elif isinstance(src_, ast.Subscript) and isinstance(src_.value, ast.Attribute) and src_.value.attr == "attrib":
                key, root = repo.fold(src_.slice, v.module, None), src_.value.value
            if key == "Signature" and isinstance(root, ast.Call) and call_name(root).split(".")[-1] in ("parse", "getroot"):
                ok_sig = True
    chk.ob("signature-compared-with-hash-of-signed-octets", v.site(), ok_hash and ok_sig, f"returns `{ast.unparse(rets[0].value) if rets else '?'}`: {shape} of sha256_hash(<handler>.output)[:16] ({'yes' if ok_hash else 'NO'}) and the decoded root `Signature` attribute ({'yes' if ok_sig else 'NO'}) — an equality of the whole 16 octets, so a shortened or empty signature never verifies", key="verify|compare")
    # wiring: the handler whose output is hashed is built from the given password and is the one the parser feeds
    hdefs = [n for n in walk_local(v.node) if isinstance(n, ast.Assign) and len(n.targets) == 1 and isinstance(n.targets[0], ast.Name) and n.targets[0].id == hname]
    ok_h = len(hdefs) == 1 and isinstance(hdefs[0].value, ast.Call) and call_name(hdefs[0].value) == "KeyringSAXContentHandler" and [ast.unparse(a) for a in hdefs[0].value.args] + [ast.unparse(k.value) for k in hdefs[0].value.keywords] == [pw] and not any(isinstance(n, ast.Name) and n.id == pw and isinstance(n.ctx, ast.Store) for n in walk_local(v.node))
    setters = [c for c in calls(v.node) if call_name(c).endswith(".setContentHandler")]
    parses = [c for c in calls(v.node) if call_name(c).endswith(".parse") and isinstance(c.func, ast.Attribute) and isinstance(c.func.value, ast.Name)]
    ok_w = len(setters) == 1 and len(setters[0].args) == 1 and isinstance(setters[0].args[0], ast.Name) and setters[0].args[0].id == hname and isinstance(setters[0].func.value, ast.Name) and any(pc.func.value.id == setters[0].func.value.id and pc.lineno > setters[0].lineno for pc in parses)
    chk.ob("signature-compared-with-hash-of-signed-octets", v.site(), ok_h and ok_w, f"handler `{hname}` = KeyringSAXContentHandler(<the given password>) ({'yes' if ok_h else 'NO'}), installed with setContentHandler on the parser that then parses the file ({'yes' if ok_w else 'NO'})", key="verify|wiring")
    # (c) load order
    ld = repo.func(M, "sync_load_keyring")
    chk.unit(ld)
    cfg = CFG(ld.node)
    parse_nodes = [n for n in cfg.nodes if n.ast is not None and n.kind in ("stmt", "with") and any(isinstance(x, ast.Call) and call_name(x) in ("parse", "keyring.parse_xml", "keyring.decrypt") for x in ast.walk(n.ast))]
    lparams = [a.arg for a in ld.node.args.args]

    def is_guard(n: ast.If) -> bool:
        conj = n.test.values if isinstance(n.test, ast.BoolOp) and isinstance(n.test.op, ast.And) else [n.test]
        seen_verify = False
        for t in conj:
            if isinstance(t, ast.Name) and t.id == "validate_signature":
                continue
            if isinstance(t, ast.UnaryOp) and isinstance(t.op, ast.Not) and isinstance(t.operand, ast.Call) and call_name(t.operand) == "verify_keyring_signature" and len(t.operand.args) == 2 and not t.operand.keywords:
                a0 = ast.unparse(inline_locals(ld.node, t.operand.args[0]))
                if a0 in (lparams[0], f"Path({lparams[0]})") and ast.unparse(t.operand.args[1]) == lparams[1]:
                    seen_verify = True
                    continue
            return False
        return seen_verify and any(isinstance(x, ast.Raise) for x in n.body) and isinstance(n.body[-1], ast.Raise)
    guard = [n for n in walk_local(ld.node) if isinstance(n, ast.If) and is_guard(n)]
    ok = bool(parse_nodes) and len(guard) == 1
    if ok:
        # every path to a statement that reads the file's content evaluates the guard (whose body always raises)
        gatoms = {id(x) for x in ast.walk(guard[0].test)}
        gtests = [n.id for n in cfg.nodes if n.kind == "test" and n.ast is not None and id(n.ast) in gatoms]
        ok = bool(gtests) and cfg.all_paths_hit(cfg.entry, gtests, [p_.id for p_ in parse_nodes])
    chk.ob("verification-precedes-parsing", ld.site(), ok, "sync_load_keyring raises on a failed verification (of the given path and password; skipped only when validate_signature is off) before parse / parse_xml / decrypt are reached", key="load|order")
    # (d) decryption flow
    n_fields = 0
    for c in repo.all_classes():
        if c.module.name != M:
            continue
        dfields = [a for a in list(c.attrs) + list(c.annotations) if a.startswith("decrypted_")]
        for fld in sorted(set(dfields)):
            n_fields += 1
            ws_ = [w for w in attr_writes(repo, fld, include_mutators=False) if w.func.module.name == M and (w.receiver != "self" or (w.func.cls is not None and (repo.is_subclass(w.func.cls, c) or repo.is_subclass(c, w.func.cls))))]
            owners = {w.func.qualname for w in ws_}
            ok_owner = owners == {f"{c.name}.decrypt_attributes"}
            srcs = []
            ok_src = bool(ws_)
            for w in ws_:
                calls_ = [x for x in ast.walk(w.stmt) if isinstance(x, ast.Call) and call_name(x) == "decrypt_aes128cbc"]
                if len(calls_) != 1:
                    ok_src = False
                    continue
                a0, a1, a2 = (ast.unparse(x) for x in calls_[0].args[:3]) if len(calls_[0].args) >= 3 else ("?", "?", "?")
                enc = fld[len("decrypted_"):]
                srcs.append(a0)
                ok_src = ok_src and a0 == f"base64.b64decode(self.{enc})" and a1 == "password_hash" and a2 == "initialization_vector"
            chk.ob("decrypted-field-comes-from-its-own-ciphertext", f"{c.module.relpath}:{c.node.lineno}:{c.name}", ok_owner and ok_src, f"{c.name}.{fld}: written in {sorted(owners)} from {srcs}", key=f"decrypt|{c.name}.{fld}")
            # the decryption is reached whenever the ciphertext attribute is there: every condition on the way to the
            # write (enclosing ifs, early returns, the conditional expression's test) tests that attribute and nothing else
            for w in ws_:
                if w.func.qualname != f"{c.name}.decrypt_attributes":
                    continue
                enc = fld[len("decrypted_"):]
                dcfg = CFG(w.func.node)
                dmf = dcfg.must_facts()
                conds = [t for n in dcfg.nodes if n.ast is w.stmt for t, _ in dmf[n.id]]
                if isinstance(getattr(w.stmt, "value", None), ast.IfExp):
                    conds.append(ast.unparse(w.stmt.value.test))
                foreign = []
                for t in conds:
                    e = ast.parse(t, mode="eval").body
                    names = {ast.unparse(x) for x in ast.walk(e) if isinstance(x, ast.Attribute) or (isinstance(x, ast.Name) and x.id not in ("self", "None"))}
                    if names - {f"self.{enc}"}:
                        foreign.append(t)
                chk.ob("decryption-conditional-only-on-its-own-ciphertext", w.func.site(w.stmt), not foreign, f"{c.name}.{fld} is decrypted under {conds or ['no condition']}" + (f" — {foreign} can skip the decryption although `{enc}` is present" if foreign else ""), key=f"decrypt-cond|{c.name}.{fld}")
    chk.floor("decrypted fields", n_fields, 7)
    dk = repo.func(M, "Keyring.decrypt")
    chk.unit(dk)
    # every decrypt_attributes call below gets (key, iv) = (hash_keyring_password(<password>.encode('utf-8')),
    # sha256_hash(self.created.encode('utf-8'))[:16]) — locals inlined, so their names do not matter — and the calls cover
    # the three element lists (through one loop over their chain / concatenation, or one loop each) and the backbone
    pw = dk.node.args.args[1].arg
    want_args = [f"hash_keyring_password({pw}.encode('utf-8'))", "sha256_hash(self.created.encode('utf-8'))[:16]"]
    dcalls = [c for c in calls(dk.node) if isinstance(c.func, ast.Attribute) and c.func.attr == "decrypt_attributes"]
    args_ok = bool(dcalls) and all([ast.unparse(inline_locals(dk.node, a)) for a in c.args] + [ast.unparse(inline_locals(dk.node, k.value)) for k in c.keywords] == want_args for c in dcalls)
    covered: set[str] = set()
    for c in dcalls:
        recv = c.func.value
        if isinstance(recv, ast.Name):
            for lp in walk_local(dk.node):
                if isinstance(lp, (ast.For,)) and isinstance(lp.target, ast.Name) and lp.target.id == recv.id and any(x is c for b in lp.body for x in ast.walk(b)):
                    covered |= {ast.unparse(x) for x in ast.walk(lp.iter) if isinstance(x, ast.Attribute) and isinstance(x.value, ast.Name) and x.value.id == "self"}
        else:
            covered.add(ast.unparse(recv))
    ok = args_ok and {"self.interfaces", "self.group_addresses", "self.devices", "self.backbone"} <= covered
    chk.ob("every-element-is-decrypted-with-the-derived-key", dk.site(), ok, "Keyring.decrypt derives key and IV from password / created and visits interfaces, group addresses, devices, backbone", key="decrypt|driver")
    gk = repo.func(M, "Keyring.get_data_secure_group_keys")
    chk.ob("getters-return-decrypted-values", gk.site(), "group_address.decrypted_key" in ast.unparse(gk.node) and ".key" not in ast.unparse(gk.node).replace("decrypted_key", ""), "get_data_secure_group_keys reads decrypted_key only", key="getter|group-keys")
    # verification and decryption are functions of the file as it is now: no memoisation anywhere in the keyring module
    # (a cache keyed by path and password answers for content that was verified earlier - a file changed afterwards is
    # accepted, and a restored one stays rejected), and no module-level state written by its functions
    def reads_files(fn, depth: int = 3) -> bool:
        for c in ast.walk(fn.node):
            if isinstance(c, ast.Call):
                nm = call_name(c)
                last = nm.split(".")[-1]
                if nm == "open" or last in ("open", "read_text", "read_bytes", "parse", "parseString") or "xml" in nm or "sax" in nm.lower():
                    return True
                if depth > 0:
                    callee = None
                    if isinstance(c.func, ast.Name):
                        r = repo.resolve(fn.module.name, c.func.id)
                        callee = r if isinstance(getattr(r, "node", None), (ast.FunctionDef, ast.AsyncFunctionDef)) else None
                    elif isinstance(c.func, ast.Attribute) and isinstance(c.func.value, ast.Name) and c.func.value.id in ("self", "cls") and fn.cls is not None:
                        callee = repo.lookup_method(fn.cls, c.func.attr)
                    if callee is not None and callee is not fn and reads_files(callee, depth - 1):
                        return True
        return False
    memo = {"lru_cache", "cache", "cached_property", "functools.lru_cache", "functools.cache", "functools.cached_property", "alru_cache"}
    nfun = 0
    for f in repo.all_functions():
        if f.module.name != "xknx.secure.keyring":
            continue
        nfun += 1
        decs = {d.split("(")[0] for d in f.decorators}
        glob = [n for n in ast.walk(f.node) if isinstance(n, (ast.Global, ast.Nonlocal))]
        mutable_default = [ast.unparse(d) for d in f.node.args.defaults + [k for k in f.node.args.kw_defaults if k is not None] if isinstance(d, (ast.List, ast.Dict, ast.Set, ast.Call))]
        bad = sorted(decs & memo) if reads_files(f) else []  # memoising a pure helper (eg. a key derivation) changes nothing
        chk.ob("verification-depends-on-the-current-content-only", f.site(), not bad and not glob and not mutable_default, f"{f.qualname}: decorators {sorted(decs) or 'none'}" + (f" - memoised by {bad}: a later call does not look at the file again" if bad else "") + (f"; writes outer state ({[ast.unparse(g) for g in glob]})" if glob else "") + (f"; mutable default {mutable_default}" if mutable_default else ""), key=f"pure|{f.qualname}")
    chk.floor("keyring module functions checked for memoisation", nfun, 20)
    # the signature input is built octet by octet: what is appended to it as a single octet has to be an octet for every
    # keyring content (a length taken from the file is not) - else verification of a correctly signed file raises
    hcls = repo.cls("xknx.secure.keyring", "KeyringSAXContentHandler")
    n_app = 0
    for mname, m in sorted(hcls.methods.items()):
        for c in calls(m.node):
            if call_name(c) == "self.output.append" and len(c.args) == 1:
                n_app += 1
                a = c.args[0]
                k = repo.fold(a, m.module, hcls)
                ok = (isinstance(k, int) and not isinstance(k, bool) and 0 <= k <= 255) or \
                     (isinstance(a, ast.BinOp) and isinstance(a.op, ast.BitAnd) and any(isinstance(repo.fold(x, m.module, hcls), int) and 0 <= repo.fold(x, m.module, hcls) <= 255 for x in (a.left, a.right))) or \
                     (isinstance(a, ast.BinOp) and isinstance(a.op, ast.Mod) and isinstance(repo.fold(a.right, m.module, hcls), int) and 0 < repo.fold(a.right, m.module, hcls) <= 256)
                chk.ob("signature-input-octets-are-octets", m.site(c), ok, f"{m.qualname}: output.append({ast.unparse(a)})" + ("" if ok else " is not bounded to 0..255 - a long attribute value makes signature verification raise ValueError"), key=f"octet|{m.qualname}|{ast.unparse(a)}")
    chk.floor("single-octet appends to the signature input", n_app, 3)
    chk.rule("structural def-use rules over the SAX content handler (signature coverage), the verification and load functions (ordering) and the decrypt_attributes methods (ciphertext-to-field flow); ownership census of the signed buffer and of the decrypted fields")
    chk.assume("SHA-256 collision resistance; xml.sax reports every element and attribute it parses; AES-CBC / PBKDF2 are the cryptography package's")
