"""C10 — complex and enum datapoint values round-trip through their JSON form.

E9 dict-form agreement, per DPTComplexData class (MRO-resolved as_dict / from_dict):
  * as_dict: the set of keys written and, per key, the kinds of value written (from the dataclass field annotation:
    int / float / bool / None; `x.name.lower()` of an enum member -> str; `asdict(self)` -> every field with its
    annotated kinds, minus the overrides made on each path);
  * every written kind is JSON-native (int, float, str, bool, None — no Enum member, bytes, tuple, dataclass);
  * from_dict: the keys consumed (`data['k']` required, `data.get('k')` optional, `{**data}` -> `cls(**_data)` all
    fields) and, per key, what the consumer accepts (int()/float() reject None unless guarded by `is not None`;
    `E.parse(v)` / `E[v.upper()]` accept the lower-case member name, not None; direct use with a bool test);
  * agreement: written keys == consumed keys (nothing written is dropped, nothing required is missing) and for every
    key each written kind is accepted by its consumer.
Enum name form: every member name of every DPTEnumData class used by a DPT survives `.lower()` then `.upper()`, and
names are unique under `.lower()`; DPTEnum.to_knx routes text through `data_type.parse`, which looks names up
upper-cased; DPTComplex.to_knx routes a Mapping through `data_type.from_dict`.
Decides acceptance of the dict / name form at the level of keys and kinds; the payload equality of the re-encoded value
is C08's clause.
"""

from __future__ import annotations

import ast
from typing import Any

from ..astx import call_name, calls, walk_local
from ..loader import AnalysisError, ClassInfo, Repo
from ..report import Check

JSON_KINDS = {"int", "float", "str", "bool", "None"}


def ann_kinds(repo: Repo, ci: ClassInfo, ann: str) -> set[str]:
    out: set[str] = set()
    for part in [p.strip() for p in ann.split("|")]:
        if part in ("int", "float", "str", "bool", "None"):
            out.add(part)
        elif part.startswith("tuple"):
            out.add("tuple")
        else:
            t = repo.resolve(ci.module.name, part)
            if isinstance(t, ClassInfo) and repo.is_enum(t):
                out.add(f"enum:{t.name}")
            else:
                out.add(f"other:{part}")
    return out


def fields_of(repo: Repo, ci: ClassInfo) -> dict[str, str]:
    out: dict[str, str] = {}
    for c in reversed(repo.mro(ci)):
        for st in c.node.body:
            if isinstance(st, ast.AnnAssign) and isinstance(st.target, ast.Name) and "ClassVar" not in ast.unparse(st.annotation):
                out[st.target.id] = ast.unparse(st.annotation)
    return out


def value_type_of(repo: Repo, ci: ClassInfo) -> ClassInfo | None:
    hit = repo.class_attr_expr(ci, "_value_type")
    if hit is None:
        return None
    t = repo.resolve_expr(hit[1].module, hit[0])
    return t if isinstance(t, ClassInfo) else None


def written_kinds(repo: Repo, ci: ClassInfo, e: ast.AST, fields: dict[str, str]) -> set[str]:
    """kinds of the value expression `e` inside as_dict."""
    txt = ast.unparse(e)
    if isinstance(e, ast.Constant):
        return {type(e.value).__name__ if e.value is not None else "None"}
    if isinstance(e, ast.Call) and isinstance(e.func, ast.Attribute) and e.func.attr == "lower" and txt.endswith(".name.lower()"):
        return {"str"}
    if isinstance(e, ast.Attribute) and isinstance(e.value, ast.Name) and e.value.id == "self" and e.attr in fields:
        ks = ann_kinds(repo, ci, fields[e.attr])
        if any(k.startswith("other:") for k in ks):
            vt = value_type_of(repo, ci)
            if vt is not None and repo.is_enum(vt):
                return {f"enum:{vt.name}"}
        return ks
    if isinstance(e, ast.IfExp):
        return written_kinds(repo, ci, e.body, fields) | written_kinds(repo, ci, e.orelse, fields)
    if isinstance(e, ast.Subscript) and isinstance(e.value, ast.Attribute) and isinstance(e.value.value, ast.Name) and e.value.value.id == "self":
        ann = fields.get(e.value.attr, "")
        if "tuple[float" in ann:
            return {"float"}
    if isinstance(e, ast.Attribute) and isinstance(e.value, ast.Name) and e.value.id in _LOCAL_ANN:
        for part in [p_.strip() for p_ in _LOCAL_ANN[e.value.id].split("|")]:
            t = repo.resolve(ci.module.name, part)
            if isinstance(t, ClassInfo):
                fs = fields_of(repo, t)
                if e.attr in fs:
                    return ann_kinds(repo, t, fs[e.attr])
    return {f"other:{txt[:40]}"}


_LOCAL_ANN: dict[str, str] = {}


def template_keys(fn, repo: Repo, ci: ClassInfo) -> tuple[ast.For | None, str | None]:
    """`for field_ in dataclass_fields(self|cls):` loops (generic helpers keyed by field name)"""
    for n in walk_local(fn.node):
        if isinstance(n, ast.For) and isinstance(n.target, ast.Name) and isinstance(n.iter, ast.Call) and call_name(n.iter) == "dataclass_fields":
            return n, n.target.id
    return None, None


def instantiate(js: ast.JoinedStr, loopvar: str, aliases: set[str], fname: str) -> str | None:
    out = ""
    for v in js.values:
        if isinstance(v, ast.Constant):
            out += v.value
        elif isinstance(v, ast.FormattedValue) and (ast.unparse(v.value) == f"{loopvar}.name" or ast.unparse(v.value) in aliases):
            out += fname
        else:
            return None
    return out


def as_dict_table(repo: Repo, ci: ClassInfo, fn) -> dict[str, set[str]]:
    fields = fields_of(repo, ci)
    rets = [n for n in walk_local(fn.node) if isinstance(n, ast.Return)]
    if len(rets) != 1:
        raise AnalysisError(f"{ci.name}.as_dict: expected one return")
    r = rets[0].value
    table: dict[str, set[str]] = {}
    loop, lv = template_keys(fn, repo, ci)
    if loop is not None and isinstance(r, ast.Name):
        _LOCAL_ANN.clear()
        for st in loop.body:
            if isinstance(st, ast.AnnAssign) and isinstance(st.target, ast.Name):
                _LOCAL_ANN[st.target.id] = ast.unparse(st.annotation)
        for st in loop.body:
            if isinstance(st, ast.Assign) and isinstance(st.targets[0], ast.Subscript) and ast.unparse(st.targets[0].value) == r.id and isinstance(st.targets[0].slice, ast.JoinedStr):
                for f_ in fields:
                    k = instantiate(st.targets[0].slice, lv, set(), f_)
                    if k is None:
                        raise AnalysisError(f"{ci.name}.as_dict: key template not understood")
                    table[k] = written_kinds(repo, ci, st.value, fields)
        if table:
            return table
    if isinstance(r, ast.Dict):
        for k, v in zip(r.keys, r.values):
            if not isinstance(k, ast.Constant) or not isinstance(k.value, str):
                raise AnalysisError(f"{ci.name}.as_dict: non-literal key")
            table[k.value] = written_kinds(repo, ci, v, fields)
        return table
    if isinstance(r, ast.Name):
        # _data = asdict(self); conditional overrides
        base = [n for n in walk_local(fn.node) if isinstance(n, ast.Assign) and isinstance(n.targets[0], ast.Name) and n.targets[0].id == r.id]
        if len(base) == 1 and isinstance(base[0].value, ast.Call) and call_name(base[0].value) == "asdict":
            for f, ann in fields.items():
                table[f] = ann_kinds(repo, ci, ann)
            for n in walk_local(fn.node):
                if isinstance(n, ast.If):
                    for st in n.body:
                        if isinstance(st, ast.Assign) and isinstance(st.targets[0], ast.Subscript) and ast.unparse(st.targets[0].value) == r.id and isinstance(st.targets[0].slice, ast.Constant):
                            key = st.targets[0].slice.value
                            newk = written_kinds(repo, ci, st.value, fields)
                            test = ast.unparse(n.test)
                            if test == f"self.{key} is not None":
                                # the override applies exactly when the field is set: None stays None, the rest is replaced
                                table[key] = ({"None"} if "None" in table.get(key, set()) else set()) | newk
                            else:
                                table[key] = table.get(key, set()) | newk
            return table
    raise AnalysisError(f"{ci.name}.as_dict: unsupported shape")


def from_dict_table(repo: Repo, ci: ClassInfo, fn) -> dict[str, dict]:
    """key -> {required: bool, accepts: set of kinds, none_ok: bool}"""
    fields = fields_of(repo, ci)
    data = fn.node.args.args[1].arg
    table: dict[str, dict] = {}
    loop_keys: dict[str, list[str]] = {}
    for n in walk_local(fn.node):
        if isinstance(n, ast.For) and isinstance(n.target, ast.Name) and isinstance(n.iter, (ast.Tuple, ast.List)) and all(isinstance(x, ast.Constant) for x in n.iter.elts):
            loop_keys[n.target.id] = [x.value for x in n.iter.elts]

    par: dict[ast.AST, ast.AST] = {}
    for p in ast.walk(fn.node):
        for ch in ast.iter_child_nodes(p):
            par[ch] = p

    def consumer(node: ast.AST, var: str | None) -> tuple[set[str], bool]:
        """(accepted kinds, None accepted) for the value produced at `node` (a data[...] / data.get(...) expression),
        following one local variable assignment."""
        p = par.get(node)

        def direct_guard() -> bool:
            keytxt = None
            if isinstance(node, ast.Subscript) and isinstance(node.slice, ast.Constant):
                keytxt = node.slice.value
            elif isinstance(node, ast.Call) and node.args and isinstance(node.args[0], ast.Constant):
                keytxt = node.args[0].value
            if keytxt is None:
                return False
            g = node
            while g in par:
                child, g = g, par[g]
                if isinstance(g, (ast.If, ast.IfExp)):
                    t_ = g.test
                    conj = t_.values if isinstance(t_, ast.BoolOp) and isinstance(t_.op, ast.And) else [t_]
                    in_body = (child in g.body) if isinstance(g, ast.If) else (child is g.body)
                    if in_body and any(ast.unparse(x) in (f"{data}.get({keytxt!r}) is not None", f"{data}[{keytxt!r}] is not None") for x in conj):
                        return True
            return False

        if isinstance(p, ast.Call) and node in p.args:
            cn = call_name(p)
            if cn == "int":
                return {"int", "float", "bool", "str"}, direct_guard()
            if cn == "float":
                return {"int", "float", "bool", "str"}, direct_guard()
            if cn.endswith(".parse"):
                return {"str", "int", "enum"}, direct_guard()
            if cn == "bool":
                return {"bool", "int", "None", "str", "float"}, True
        if isinstance(p, ast.Attribute) and p.attr == "upper":
            return {"str"}, False
        if isinstance(p, ast.IfExp) and p.body is not node and p.test is not node:
            pass
        if isinstance(p, ast.Assign) and len(p.targets) == 1 and isinstance(p.targets[0], ast.Name):
            v = p.targets[0].id
            acc: set[str] = set()
            none_ok = True
            used = False
            def guarded_by_not_none(up_: ast.AST) -> bool:
                g = up_
                while g in par:
                    child, g = g, par[g]
                    if isinstance(g, (ast.If, ast.IfExp)):
                        t_ = g.test
                        conj = t_.values if isinstance(t_, ast.BoolOp) and isinstance(t_.op, ast.And) else [t_]
                        in_body = (child in g.body) if isinstance(g, ast.If) else (child is g.body)
                        if in_body and any(ast.unparse(x) == f"{v} is not None" for x in conj):
                            return True
                return False

            for use in walk_local(fn.node):
                if isinstance(use, ast.Name) and use.id == v and isinstance(use.ctx, ast.Load):
                    up = par.get(use)
                    if isinstance(up, ast.Call) and use in up.args and call_name(up) in ("int", "float"):
                        used = True
                        acc |= {"int", "float", "bool", "str"}
                        none_ok = none_ok and guarded_by_not_none(up)
                    elif isinstance(up, ast.Attribute) and up.attr == "upper":
                        used = True
                        acc |= {"str"}
                        none_ok = none_ok and guarded_by_not_none(up)
                    elif isinstance(up, ast.Call) and use in up.args and call_name(up).endswith(".parse"):
                        used = True
                        acc |= {"str", "int", "enum"}
                        none_ok = none_ok and guarded_by_not_none(up)
                    elif isinstance(up, ast.Compare) and ast.unparse(up).startswith(f"{v} not in (True, False)"):
                        used = True
                        acc |= {"bool"}
                        none_ok = False
                    elif isinstance(up, ast.Call) and call_name(up) == "isinstance" and ast.unparse(up.args[1]) == "bool":
                        used = True
                        acc |= {"bool"}
                        none_ok = False
                    elif isinstance(up, ast.keyword) or (isinstance(up, ast.Call) and call_name(up) in ("cls", "bool")):
                        used = True
            if not acc:
                acc = {"int", "float", "bool", "str", "None"}
            return acc, none_ok and ("None" in acc or True)
        return {"int", "float", "bool", "str", "None"}, True

    loop, lv = template_keys(fn, repo, ci)
    aliases: set[str] = set()
    if loop is not None:
        for st in loop.body:
            if isinstance(st, ast.Assign) and isinstance(st.targets[0], ast.Name) and ast.unparse(st.value) == f"{lv}.name":
                aliases.add(st.targets[0].id)
    for n in walk_local(fn.node):
        key = None
        required = False
        if loop is not None and isinstance(n, ast.Call) and isinstance(n.func, ast.Attribute) and n.func.attr == "get" and isinstance(n.func.value, ast.Name) and n.func.value.id == data and n.args and isinstance(n.args[0], ast.JoinedStr):
            acc, none_ok = consumer(n, None)
            for f_ in fields:
                kk = instantiate(n.args[0], lv, aliases, f_)
                if kk is None:
                    raise AnalysisError(f"{ci.name}.from_dict: key template not understood")
                e = table.setdefault(kk, {"required": False, "accepts": set(), "none_ok": True})
                e["accepts"] |= acc
                e["none_ok"] = e["none_ok"] and none_ok
            continue
        if isinstance(n, ast.Subscript) and isinstance(n.value, ast.Name) and n.value.id == data and isinstance(n.ctx, ast.Load):
            k = n.slice
            keys = [k.value] if isinstance(k, ast.Constant) else loop_keys.get(k.id, []) if isinstance(k, ast.Name) else []
            required = True
        elif isinstance(n, ast.Call) and isinstance(n.func, ast.Attribute) and n.func.attr == "get" and isinstance(n.func.value, ast.Name) and n.func.value.id == data and n.args:
            k = n.args[0]
            keys = [k.value] if isinstance(k, ast.Constant) else loop_keys.get(k.id, []) if isinstance(k, ast.Name) else []
        else:
            continue
        if not keys:
            raise AnalysisError(f"{ci.name}.from_dict: key expression `{ast.unparse(n)}` not resolved")
        # a `'k' in data` guard makes a subscript optional
        guard = n
        while guard in par:
            guard = par[guard]
            if isinstance(guard, ast.If) and any(ast.unparse(guard.test) == f"'{kk}' in {data}" for kk in keys):
                required = False
        acc, none_ok = consumer(n, None)
        for kk in keys:
            e = table.setdefault(kk, {"required": False, "accepts": set(), "none_ok": True})
            e["required"] = e["required"] or required
            e["accepts"] |= acc
            e["none_ok"] = e["none_ok"] and none_ok
    # {**data} -> cls(**_data): every dataclass field is consumed as given
    spread = [n for n in walk_local(fn.node) if isinstance(n, ast.Dict) and any(k is None for k in n.keys)]
    if spread and any(isinstance(c, ast.Call) and call_name(c) == "cls" and any(kw.arg is None for kw in c.keywords) for c in calls(fn.node)):
        for f, ann in fields.items():
            e = table.setdefault(f, {"required": False, "accepts": set(), "none_ok": True})
            if not e["accepts"]:
                e["accepts"] = {"int", "float", "bool", "str", "None"}
    return table


def complex_classes(repo: Repo) -> list[tuple[ClassInfo, Any, Any]]:
    base = repo.cls("xknx.dpt.dpt", "DPTComplexData")
    out = []
    for c in repo.subclasses(base, strict=True):
        a, f = repo.lookup_method(c, "as_dict"), repo.lookup_method(c, "from_dict")
        if a is None or f is None or any("abstractmethod" in d for d in a.decorators) or any("abstractmethod" in d for d in f.decorators):
            continue
        if not fields_of(repo, c):
            continue
        out.append((c, a, f))
    return out


def run(chk: Check, repo: Repo) -> None:
    # the value-level half of this property (the payload a value encodes to decodes to the same value; a decoded value
    # is accepted by the type's own encoder) is the codec round trip of C08 - its obligations are part of this check
    from . import c08
    c08.run(chk, repo)
    classes = complex_classes(repo)
    chk.floor("complex data classes", len(classes), 14)
    for c, a, f in sorted(classes, key=lambda t: t[0].name):
        chk.unit(a); chk.unit(f)
        w = as_dict_table(repo, c, a)
        r = from_dict_table(repo, c, f)
        site = a.site()
        for k, kinds_ in sorted(w.items()):
            bad = sorted(x for x in kinds_ if x not in JSON_KINDS)
            chk.ob("written-value-is-json-native", site, not bad, f"{c.name}.as_dict['{k}'] writes {sorted(kinds_)}" + (f" — not JSON-native: {bad}" if bad else ""), key=f"json|{c.name}|{k}")
        wk, rk = set(w), set(r)
        chk.ob("written-keys-are-consumed", f.site(), wk <= rk, f"{c.name}: as_dict writes {sorted(wk)}; from_dict consumes {sorted(rk)}" + (f" — written but never read back: {sorted(wk - rk)}" if wk - rk else ""), key=f"keys-dropped|{c.name}")
        missing = sorted(k for k in rk - wk if r[k]["required"])
        chk.ob("required-keys-are-written", f.site(), not missing, f"{c.name}: required keys {sorted(k for k in rk if r[k]['required'])} all written" if not missing else f"{c.name}: from_dict requires {missing} which as_dict does not write", key=f"keys-missing|{c.name}")
        for k in sorted(wk & rk):
            kinds_ = w[k]
            acc = r[k]["accepts"]
            probs = []
            if "None" in kinds_ and not r[k]["none_ok"]:
                probs.append("None is written but the consumer rejects None")
            for x in kinds_ - {"None"}:
                base_kind = "enum" if x.startswith("enum:") else x
                if base_kind not in acc and not (base_kind == "str" and "str" in acc):
                    probs.append(f"{x} is written but the consumer accepts {sorted(acc)}")
            chk.ob("written-kind-is-accepted", f.site(), not probs, f"{c.name}['{k}']: writes {sorted(kinds_)}; from_dict accepts {sorted(acc)}{' (None only when guarded: ' + str(r[k]['none_ok']) + ')'}" + (" — " + "; ".join(probs) if probs else ""), key=f"kind|{c.name}|{k}")
    # enum name form
    ed = repo.cls("xknx.dpt.dpt", "DPTEnumData")
    enums = [e for e in repo.subclasses(ed, strict=True)]
    chk.floor("enum data classes", len(enums), 25)
    for e in sorted(enums, key=lambda x: x.name):
        names = list(repo.enum_members(e))
        bad = [n for n in names if n.lower().upper() != n]
        dup = len({n.lower() for n in names}) != len(names)
        chk.ob("enum-name-survives-lower-upper", f"{e.module.relpath}:{e.node.lineno}:{e.name}", not bad and not dup and bool(names), f"{e.name}: {len(names)} member names" + (f"; not recovered by .lower().upper(): {bad}" if bad else "") + ("; not unique under lower()" if dup else ""), key=f"enum-names|{e.name}")
    parse = repo.func("xknx.dpt.dpt", "DPTEnumData.parse")
    ok = any(isinstance(n, ast.Subscript) and ast.unparse(n) == "cls[value.upper()]" for n in walk_local(parse.node))
    chk.ob("enum-parse-looks-up-upper-cased-name", parse.site(), ok, "DPTEnumData.parse resolves text through cls[value.upper()]", key="enum-parse")
    et = repo.func("xknx.dpt.dpt", "DPTEnum.to_knx")
    chk.ob("enum-encoder-routes-text-through-parse", et.site(), any(call_name(c_) == "cls.data_type.parse" for c_ in calls(et.node)), "DPTEnum.to_knx encodes cls.data_type.parse(value)", key="enum-to_knx")
    ct = repo.func("xknx.dpt.dpt", "DPTComplex.to_knx")
    chk.ob("complex-encoder-routes-mapping-through-from_dict", ct.site(), any(call_name(c_) == "cls.data_type.from_dict" for c_ in calls(ct.node)), "DPTComplex.to_knx encodes cls.data_type.from_dict(value) for a mapping", key="complex-to_knx")
    chk.rule("E9 dict-form agreement between as_dict and from_dict (keys, kinds, None handling) per complex data class; JSON-native kinds; enum member-name normal form")
    chk.assume("a value of an annotated kind is what the dataclass field holds (mypy --strict, which the repository enforces)")
