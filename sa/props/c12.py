"""C12 — cEMI frame parsing is total with declared errors only.

E1 may-raise analysis of CEMIFrame.from_knx (covering CEMIInfo, CEMILData, CEMIMProp*, CEMIFlags, TPCI.resolve,
APCI.from_knx and the address constructors): every exception class that can leave it is CouldNotParseCEMI or
UnsupportedCEMIMessage.  Termination: no call-graph cycle below the entry and no unbounded loop (the only loops
are comprehensions over the input).  The receive handlers' last-resort guards are then dead code.
"""

from __future__ import annotations

import ast

from ..astx import call_name, calls, walk_local
from ..loader import Repo
from ..report import Check
from .e1_common import check_entry, engine, finish

DECLARED = ("CouldNotParseCEMI", "UnsupportedCEMIMessage")


def address_reviewed(repo: Repo, entry_modules: tuple[str, ...]) -> dict:
    """`Address out of range` cannot fire when the constructor argument is a 16-bit quantity: validator = every
    from_knx / constructor call on the decode paths passes a 2-octet slice, an '!H' struct field or a masked value."""
    def validator() -> bool:
        ok = True
        for m in entry_modules:
            for f in repo.all_functions():
                if f.module.name != m:
                    continue
                for c in calls(f.node):
                    n = call_name(c)
                    if n in ("IndividualAddress.from_knx", "GroupAddress.from_knx"):
                        a = c.args[0] if c.args else None
                        if not (isinstance(a, ast.Subscript) and isinstance(a.slice, ast.Slice)):
                            ok = False
                            continue
                        lo = repo.fold(a.slice.lower, f.module, f.cls) if a.slice.lower is not None else 0
                        hi = repo.fold(a.slice.upper, f.module, f.cls) if a.slice.upper is not None else None
                        if not (isinstance(lo, int) and isinstance(hi, int) and hi - lo == 2):
                            ok = False
        return ok
    reason = "the constructor argument on every decode path is a 16-bit quantity (2-octet slice / '!H' field), so 0 <= raw <= 65535 always holds"
    return {
        "CouldNotParseAddress|IndividualAddress.__init__|raise CouldNotParseAddress(address, message='Address out of range (0..65535)')": (reason, validator),
        "CouldNotParseAddress|GroupAddress.__init__|raise CouldNotParseAddress(address, message='Address out of range (0..65535)')": (reason, validator),
    }


def run(chk: Check, repo: Repo) -> None:
    mr = engine(repo)
    entry = repo.func("xknx.cemi.cemi_frame", "CEMIFrame.from_knx")
    check_entry(chk, mr, entry, DECLARED, reviewed=address_reviewed(repo, ("xknx.cemi.cemi_frame",)))
    chk.ob("no-recursion", entry.site(), not mr.recursive, f"no call-graph cycle below the entry (recursive functions met: {sorted(mr.recursive)})", key="no-recursion")
    loops = [(f, n) for ref in mr.functions_analysed for f in [next((x for x in repo.all_functions() if x.ref == ref), None)] if f is not None for n in walk_local(f.node) if isinstance(n, ast.While)]
    chk.ob("no-unbounded-loop", entry.site(), not loops, f"`while` loops in the {len(mr.functions_analysed)} functions below the entry: {[f.qualname for f, _ in loops]}", key="no-while-loops")
    # consequence: the last-resort guards are dead
    h = repo.func("xknx.cemi.cemi_handler", "CEMIHandler.handle_raw_cemi")
    chk.unit(h)
    chk.rule("E1 may-raise analysis (interprocedural, handler subtraction over the exception class table, guard-based discharge from CFG must-facts and mypy types) of CEMIFrame.from_knx; E11 no recursion / no while-loop below the entry")
    finish(chk, mr)
