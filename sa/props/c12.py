"""C12 — cEMI frame parsing is total with declared errors only.

E1 may-raise analysis of CEMIFrame.from_knx (covering CEMIInfo, CEMILData, CEMIMProp*, CEMIFlags, TPCI.resolve,
APCI.from_knx and the address constructors): every exception class that can leave it is CouldNotParseCEMI or
UnsupportedCEMIMessage.  Termination: no call-graph cycle below the entry and no unbounded loop (the only loops
are comprehensions over the input).  The receive handlers' last-resort guards are then dead code.
"""

from __future__ import annotations

import ast

from ..astx import call_name, calls, walk_local
from ..loader import Repo
from ..report import Check
from .e1_common import check_entry, engine, finish

DECLARED = ("CouldNotParseCEMI", "UnsupportedCEMIMessage")


def address_reviewed(repo: Repo, entry_modules: tuple[str, ...]) -> dict:
    """`Address out of range` cannot fire when the constructor argument is a 16-bit quantity: validator = every
    from_knx / constructor call on the decode paths passes a 2-octet slice, an '!H' struct field or a masked value."""
    def validator() -> bool:
        import re as _re
        ok = True
        seen = 0
        for m in entry_modules:
            for f in repo.all_functions():
                if f.module.name != m:
                    continue
                for c in calls(f.node):
                    n = call_name(c)
                    a = c.args[0] if c.args else None
                    if n in ("IndividualAddress.from_knx", "GroupAddress.from_knx"):
                        seen += 1
                        good = False
                        if isinstance(a, ast.Subscript) and isinstance(a.slice, ast.Slice) and a.slice.lower is not None and a.slice.upper is not None:
                            lo = repo.fold(a.slice.lower, f.module, f.cls)
                            hi = repo.fold(a.slice.upper, f.module, f.cls)
                            if isinstance(lo, int) and isinstance(hi, int) and hi - lo == 2:
                                good = True
                            elif ast.unparse(a.slice.upper) == f"{ast.unparse(a.slice.lower)} + 2":
                                good = True  # raw[i : i + 2]: at most two octets
                        ok = ok and good
                    elif n in ("IndividualAddress", "GroupAddress") and f.name == "from_knx":
                        seen += 1
                        good = False
                        if isinstance(a, ast.Name):
                            for st in ast.walk(f.node):
                                if isinstance(st, ast.Assign) and isinstance(st.value, ast.Call) and call_name(st.value) == "struct.unpack" and st.value.args:
                                    fmt = repo.fold(st.value.args[0], f.module, f.cls)
                                    tg = st.targets[0]
                                    if isinstance(fmt, str) and isinstance(tg, (ast.Tuple, ast.List)):
                                        codes = [code for cnt, code in _re.findall(r"(\d*)([xcbB?hHiIlLqQnNefdspP])", fmt.lstrip("@=<>!")) if code != "x" for _ in range(int(cnt) if cnt and code not in "sp" else 1)]
                                        for el, code in zip(tg.elts, codes):
                                            if isinstance(el, ast.Name) and el.id == a.id and code in "BH":
                                                good = True
                        ok = ok and good
        return ok and seen > 0
    reason = "the constructor argument on every decode path is a 16-bit quantity (2-octet slice / '!H' field), so 0 <= raw <= 65535 always holds"
    return {
        "CouldNotParseAddress|IndividualAddress.__init__|raise CouldNotParseAddress(address, message='Address out of range (0..65535)')": (reason, validator),
        "CouldNotParseAddress|GroupAddress.__init__|raise CouldNotParseAddress(address, message='Address out of range (0..65535)')": (reason, validator),
    }


def run(chk: Check, repo: Repo) -> None:
    mr = engine(repo)
    entry = repo.func("xknx.cemi.cemi_frame", "CEMIFrame.from_knx")
    check_entry(chk, mr, entry, DECLARED, reviewed=address_reviewed(repo, ("xknx.cemi.cemi_frame",)))
    chk.ob("no-recursion", entry.site(), not mr.recursive, f"no call-graph cycle below the entry (recursive functions met: {sorted(mr.recursive)})", key="no-recursion")
    loops = [(f, n) for ref in mr.functions_analysed for f in [next((x for x in repo.all_functions() if x.ref == ref), None)] if f is not None for n in walk_local(f.node) if isinstance(n, ast.While)]
    chk.ob("no-unbounded-loop", entry.site(), not loops, f"`while` loops in the {len(mr.functions_analysed)} functions below the entry: {[f.qualname for f, _ in loops]}", key="no-while-loops")
    # consequence: the receive handlers' last-resort guards are dead code
    from ..mayraise import _FuncAnalysis
    n_guards = 0
    for hm, hq in (("xknx.cemi.cemi_handler", "CEMIHandler.handle_raw_cemi"), ("xknx.io.device_management_connection", "_DeviceManagementConnection._cemi_received")):
        h = repo.func(hm, hq)
        chk.unit(h)
        an = _FuncAnalysis(mr, h, h.cls)
        for t in walk_local(h.node):
            if not (isinstance(t, ast.Try) and any(call_name(c) == "CEMIFrame.from_knx" for s in t.body for c in calls(s))):
                continue
            last = [i for i, hd in enumerate(t.handlers) if hd.type is None or ast.unparse(hd.type) in ("Exception", "BaseException")]
            if not last:
                continue
            n_guards += 1
            body = an.block(t.body, None)
            named = [ast.unparse(x).split(".")[-1] for hd in t.handlers[: last[0]] for x in (hd.type.elts if isinstance(hd.type, ast.Tuple) else [hd.type])]
            left = sorted({f"{e.exc} from `{e.stmt}` in {e.func}" for e in body if not any(mr.is_sub(e.exc, n) for n in named)
                           and e.key not in address_reviewed(repo, ("xknx.cemi.cemi_frame",))})
            chk.ob("last-resort-guard-is-dead", h.site(t), not left, f"{hq}: everything the guarded region can raise is caught by the specific handlers {named}; reaching `except Exception`: {left or 'nothing'}", key=f"last-resort|{hq}")
    chk.floor("receive handlers with a last-resort guard", n_guards, 2)
    chk.rule("E1 may-raise analysis (interprocedural, handler subtraction over the exception class table, guard-based discharge from CFG must-facts and mypy types) of CEMIFrame.from_knx; E11 no recursion / no while-loop below the entry")
    finish(chk, mr)
