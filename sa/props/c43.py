"""C43 — point-to-point management connections follow the transport-layer protocol (step-level clauses).

 (a) P2PConnection.process table over {TPCI class} x {sequence number = / != expected} x {ack waiter: none/
     pending/done} x {response waiter: pending/done}, with future completion modelled as typestate (completing
     a done future raises InvalidStateError): a response is accepted only with the expected number, then the
     expected number becomes its successor mod 16; nothing escapes.
 (b) Management.process table over {TPCI class} x {open connection for the source?} x {number relation}:
     a T_ACK is sent only for data of an open connection carrying the expected or the preceding number.
 (c) send_data by path enumeration over send/ack outcomes: one fresh number per call (generator = successor
     mod 16), at most one repetition of the *same* telegram, success only for a T_ACK with the sent number,
     every wait under a timeout constant; request() checks connection state and the response class.
 (d) _receive: bounded wait, fresh future on every exit (each response used once), class check.
"""

from __future__ import annotations

import ast
from itertools import product

from ..absmachine import AbsMachine, ADict, Obj, Outcome, Raise, SymInt, UNKNOWN, class_isinstance
from ..astx import attr_writes, call_name, call_sites, calls, enclosing_with_items, method_name, parents, walk_local
from ..cfg import CFG
from ..exctable import ExcTable
from ..explore import Explorer
from ..loader import NOFOLD, AnalysisError, EnumMember, Repo
from ..report import Check, canon

M = "xknx.management.management"
TPCIS = ["TDataGroup", "TDataBroadcast", "TDataTagGroup", "TDataIndividual", "TDataConnected", "TConnect", "TDisconnect", "TAck", "TNak"]


def _future_model(futs: dict[str, str]):
    """call outcomes for futures stored under env keys; state in env['#fut:<key>'] in {'pending','done'}"""
    def cm(c: ast.Call, env):
        n = call_name(c)
        for key in futs:
            if n == f"{key}.done":
                return [Outcome(None, env.get(f"#fut:{key}") == "done")]
            if n in (f"{key}.set_result", f"{key}.set_exception"):
                kind = n.rsplit(".", 1)[1].upper()
                if env.get(f"#fut:{key}") == "done":
                    return [Outcome(f"{kind}_ON_DONE_FUTURE({futs[key]})", Raise("InvalidStateError"))]
                env[f"#fut:{key}"] = "done"
                return [Outcome(f"{kind}({futs[key]})", None)]
            if n == f"{key}.cancel":
                env[f"#fut:{key}"] = "done"
                return [Outcome(f"CANCEL({futs[key]})", None)]
        return None
    return cm


def p2p_process(chk: Check, repo: Repo) -> None:
    fi = repo.func(M, "P2PConnection.process")
    chk.unit(fi)
    cfg = CFG(fi.node)
    exc = ExcTable(repo)
    p0 = fi.node.args.args[1].arg
    fm = _future_model({"self._ack_waiter": "ack", "self._response_waiter": "response"})
    n_cells = 0
    for tp, d, ackw, respw in product(("TDisconnect", "TAck", "TNak", "TDataConnected", "TDataIndividual", "TConnect"), (0, 1, 15), ("none", "pending", "done"), ("pending", "done")):
        if tp in ("TDisconnect", "TAck", "TNak", "TDataIndividual", "TConnect") and d != 0:
            continue
        n_cells += 1
        def cm(c, env):
            r = fm(c, env)
            if r is not None:
                return r
            if call_name(c).startswith("logger.") or method_name(c) == "ManagementConnectionRefused":
                return [Outcome(None, Obj("exc", "refused"))]
            return None
        am = AbsMachine(cfg, exc, cm)
        am.isinstance_fn = class_isinstance(repo)
        tpci = Obj(tp, "t", (("sequence_number", SymInt("e", d, 16)),))
        env = {f"{p0}.tpci": tpci, "self._expected_sequence_number": SymInt("e", 0, 16), "self._ack_waiter": None if ackw == "none" else Obj("Future", "ack"), "self._response_waiter": Obj("Future", "resp"),
               "#fut:self._ack_waiter": ackw, "#fut:self._response_waiter": respw, "self._connected": True}
        paths = Explorer(cfg, repo, am.step).run(cfg.entry, [], env)
        got = {(tuple(t for t in p.env.get("trace", ()) if not t.startswith("raise:")), repr(p.env.get("self._expected_sequence_number")), p.env.get("self._connected"), p.end_kind if p.end_kind == "exit" else f"raise {p.env.get('#raised')}") for p in paths}
        E0, E1 = repr(SymInt("e", 0, 16)), repr(SymInt("e", 1, 16))
        if tp == "TDisconnect":
            want = {(((("SET_EXCEPTION(response)",) if respw == "pending" else ())), E0, False, "exit")}
        elif tp in ("TAck", "TNak"):
            want = {(((("SET_RESULT(ack)",) if ackw == "pending" else ())), E0, True, "exit")}
        else:
            if respw == "done" or d != 0 or tp != "TDataConnected":
                # unexpected (waiter already served / wrong number) or not a numbered data telegram at all (its
                # `sequence_number` is the class default 0, which must not match an expected 0): discarded
                want = {((), E0, True, "exit")}
            else:
                want = {(("SET_RESULT(response)",), E1, True, "exit")}
        if want is None:
            continue
        ok = got == want
        key = f"p2p|{tp}|{d}|{ackw}|{respw}"
        if not ok:
            flat = " ".join(t for g in got for t in g[0])
            if tp == "TDisconnect" and "SET_EXCEPTION_ON_DONE_FUTURE(response)" in flat:
                key = "p2p|disconnect-completes-done-response-future"
            elif tp in ("TAck", "TNak") and "SET_RESULT_ON_DONE_FUTURE(ack)" in flat:
                key = "p2p|duplicate-ack-completes-done-future"
            else:
                key += f"|{sorted(map(str, got))}"
        chk.ob("p2p-process-cell", fi.site(), ok, f"tpci={tp} number=expected{d:+d} ack_waiter={ackw} response_waiter={respw}: {sorted(map(str, got))}; reference {sorted(map(str, want))}", key=key)
    chk.count("p2p_process_cells", n_cells)


def mgmt_process(chk: Check, repo: Repo) -> None:
    fi = repo.func(M, "Management.process")
    chk.unit(fi)
    cfg = CFG(fi.node)
    exc = ExcTable(repo)
    p0 = fi.node.args.args[1].arg
    src = Obj("IndividualAddress", "peer")
    for tp, has_conn, rel in product(TPCIS, (False, True), ("expected", "preceding", "other")):
        if tp != "TDataConnected" and rel != "expected":
            continue
        box = {}
        conn = Obj("P2PConnection", "conn")

        def cm(c, env):
            n = call_name(c)
            am = box["am"]
            if n == "TAck":
                kw = {k.arg: am.ev(k.value, env, {}) for k in c.keywords}
                return [Outcome(None, Obj("TAck", "ack", (("sequence_number", kw.get("sequence_number")),)))]
            if n == "TDisconnect":
                return [Outcome(None, Obj("TDisconnect", "d"))]
            if n == "Telegram":
                kw = {k.arg: am.ev(k.value, env, {}) for k in c.keywords}
                return [Outcome(None, Obj("Telegram", "out", tuple(kw.items())))]
            if n.endswith("cemi_handler.send_telegram"):
                t = am.ev(c.args[0], env, {})
                tp_ = t.get("tpci") if isinstance(t, Obj) else None
                if isinstance(tp_, Obj) and tp_.cls == "TAck":
                    return [Outcome(f"SEND_ACK(to={t.get('destination_address')!r}, number={tp_.get('sequence_number')!r})", Obj("coro", "c"))]
                return [Outcome(f"SEND({getattr(tp_, 'cls', '?')})", Obj("coro", "c"))]
            if n.endswith("task_registry.background"):
                return [Outcome(None, None)]
            if n == "self._connections.get":
                return [Outcome(None, conn if has_conn else None)]
            if isinstance(c.func, ast.Attribute) and c.func.attr == "process" and am.ev(c.func.value, env, {}) == conn:  # the connection found for the source, by value
                return [Outcome("CONNECTION_PROCESS", None)]
            if n.endswith(".queue.put_nowait") and isinstance(c.func.value, ast.Attribute) and isinstance(am.ev(c.func.value.value, env, {}), Obj) and am.ev(c.func.value.value, env, {}).cls == "BroadcastContext":
                return [Outcome("BROADCAST_QUEUE", None)]
            if n.startswith("logger."):
                return [Outcome(None, None)]
            return None

        am = AbsMachine(cfg, exc, cm)
        am.isinstance_fn = class_isinstance(repo)
        box["am"] = am
        numbered = repo.const(repo.cls("xknx.telegram.tpci", tp), "numbered")
        d = {"expected": 0, "preceding": 15, "other": 5}[rel]
        tpci = Obj(tp, "t", (("sequence_number", SymInt("e", d, 16)), ("numbered", numbered)))
        env = {f"{p0}.tpci": tpci, f"{p0}.source_address": src, "self._broadcast_contexts": (Obj("BroadcastContext", "ctx"),)}
        paths = Explorer(cfg, repo, am.step).run(cfg.entry, [], env)
        got = {tuple(p.env.get("trace", ())) for p in paths}
        acks = {t for g in got for t in g if t.startswith("SEND_ACK")}
        should_ack = tp == "TDataConnected" and has_conn and rel in ("expected", "preceding")
        want_ack = {f"SEND_ACK(to={src!r}, number={SymInt('e', d, 16)!r})"} if should_ack else set()
        ok = acks == want_ack
        key = f"mgmt-ack|{tp}|{has_conn}|{rel}"
        if not ok and tp == "TDataConnected" and acks and not should_ack:
            key = "mgmt-ack|unconditional-ack-for-connected-data"
        chk.ob("ack-only-for-own-connection-data", fi.site(), ok, f"tpci={tp} connection={'open' if has_conn else 'none'} number={rel}: acknowledgements sent {sorted(acks)}; reference {sorted(want_ack)}", key=key)
        # dispatch
        rest = {tuple(t for t in g if not t.startswith("SEND_ACK")) for g in got}
        if tp == "TDataBroadcast":
            want_rest = {("BROADCAST_QUEUE",)}  # a broadcast goes to the broadcast consumers, also when a connection to its sender is open: it is not a response on that connection
        elif has_conn:
            want_rest = {("CONNECTION_PROCESS",)}
        elif numbered:
            want_rest = {()}
        elif tp == "TConnect":
            want_rest = {("SEND(TDisconnect)",)}
        elif tp == "TDataBroadcast":
            want_rest = {("BROADCAST_QUEUE",)}
        else:
            want_rest = {()}
        chk.ob("management-dispatch", fi.site(), rest == want_rest, f"tpci={tp} connection={'open' if has_conn else 'none'}: {sorted(rest)}; reference {sorted(want_rest)}", key=f"mgmt-dispatch|{tp}|{has_conn}" + ("" if rest == want_rest else f"|{sorted(rest)}"))


def send_and_receive(chk: Check, repo: Repo) -> None:
    exc = ExcTable(repo)
    gen = repo.func(M, "P2PConnection._sequence_number_generator")
    chk.unit(gen)
    cfg = CFG(gen.node)
    heads = [n for n in cfg.nodes if n.kind == "join" and isinstance(n.ast, ast.While) and any(l in ("loop", "continue") for _, l in n.pred)]
    am = AbsMachine(cfg, exc, lambda c, e: None)
    # the generator's counter local, found as the name it yields
    ys = [n for n in ast.walk(gen.node) if isinstance(n, ast.Yield) and isinstance(n.value, ast.Name)]
    cv = ys[0].value.id if len(ys) == 1 else "?"
    pre = Explorer(cfg, repo, am.step).run(cfg.entry, [heads[0].id], {"#trace_yields": True}) if heads else []
    ok0 = len(pre) == 1 and pre[0].env.get(cv) == 0
    it = Explorer(cfg, repo, am.step).run(heads[0].id, [heads[0].id], {"#trace_yields": True, cv: SymInt("n", 0, 16)}) if heads else []
    ok1 = len(it) == 1 and it[0].env.get("trace") == (f"YIELD({SymInt('n', 0, 16)!r})",) and it[0].env.get(cv) == SymInt("n", 1, 16)
    chk.ob("outgoing-number-generator", gen.site(), ok0 and ok1, f"generator starts at 0 ({ok0}) and each iteration yields n then stores n+1 mod 16 ({ok1})", key="seq-generator")
    # send_data
    sd = repo.func(M, "P2PConnection.send_data")
    chk.unit(sd)
    cfgs = CFG(sd.node)
    scripts = {
        "ack with the sent number": ["ack:same"], "ack with another number": ["ack:other"], "nak": ["nak"],
        "timeout then ack": ["timeout", "ack:same"], "timeout twice": ["timeout", "timeout"], "not acknowledged service": ["noack"],
        "confirmation error": ["conferr"], "disconnected": ["disconnected"],
    }
    for label, script in scripts.items():
        box = {}
        def cm(c, env):
            n = call_name(c)
            am_ = box["am"]
            if n == "next":
                return [Outcome(f"NEXT_NUMBER({ast.unparse(c.args[0])})", SymInt("n", 0, 16))]
            if n == "TDataConnected":
                return [Outcome(None, Obj("TDataConnected", "out", tuple((k.arg, am_.ev(k.value, env, {})) for k in c.keywords)))]
            if n == "Telegram":
                return [Outcome(None, Obj("Telegram", "req", tuple((k.arg, am_.ev(k.value, env, {})) for k in c.keywords)))]
            if n.endswith("cemi_handler.send_telegram"):
                t = am_.ev(c.args[0], env, {})
                tp_ = t.get("tpci") if isinstance(t, Obj) else None
                ev = f"SEND({t!r}, number={tp_.get('sequence_number') if isinstance(tp_, Obj) else None!r})"
                if script[0] == "conferr":
                    return [Outcome(ev + ":fails", Raise("ConfirmationError"))]
                return [Outcome(ev, None)]
            if n.endswith("create_future"):
                k = env.get("#futs", 0); env["#futs"] = k + 1
                return [Outcome(None, Obj("Future", f"ack{k}"))]
            if n.startswith("logger.") or n.endswith("get_event_loop"):
                return [Outcome(None, Obj("x", "x"))]
            return None
        am = AbsMachine(cfgs, exc, cm, lambda e, env: (repo.module_const(M, e.id) if isinstance(e, ast.Name) and repo.module_const(M, e.id) is not NOFOLD else UNKNOWN))
        am.isinstance_fn = class_isinstance(repo)
        box["am"] = am
        base = am.step
        def step(node, env):
            a = node.ast
            if node.kind == "stmt" and isinstance(a, ast.Assign) and isinstance(a.value, ast.Await) and ast.unparse(a.value.value) == "self._ack_waiter":
                i = env.get("#acks", 0)
                ev = script[i] if i < len(script) else "timeout"
                e2 = dict(env); e2["#acks"] = i + 1
                tr = tuple(env.get("trace", ()))
                w = [x for x in enclosing_with_items(node.withs) if x.startswith("asyncio.timeout(")]
                tag = f"AWAIT_ACK[{w[0] if w else 'UNBOUNDED'}]"
                if ev == "timeout":
                    e2["trace"] = tr + (tag + ":timeout",); e2["#raised"] = "TimeoutError"
                    return [(f"goto:{am._exc_target(node, 'TimeoutError')}", e2)]
                e2["trace"] = tr + (tag,)
                seqv = SymInt("n", 0, 16) if ev == "ack:same" else SymInt("n", 3, 16)
                e2[ast.unparse(a.targets[0])] = Obj("TNak" if ev == "nak" else "TAck", "rx", (("sequence_number", seqv),))
                return [("next", e2)]
            return base(node, env)
        env = {"self._connected": script[0] != "disconnected", "wait_for_ack": script[0] != "noack", "payload": Obj("APCI", "p")}
        paths = Explorer(cfgs, repo, step, max_steps=300).run(cfgs.entry, [], env)
        res = {(tuple(t for t in p.env.get("trace", ()) if not t.startswith("raise:")), p.end_kind if p.end_kind == "exit" else f"raise {p.env.get('#raised')}", repr(p.env.get("self._ack_waiter"))) for p in paths}
        N = repr(SymInt("n", 0, 16))
        REQ = repr(Obj("Telegram", "req"))
        S = f"SEND({REQ}, number={N})"
        W = "AWAIT_ACK[asyncio.timeout(MANAGAMENT_ACK_TIMEOUT)]"
        G = "NEXT_NUMBER(self.sequence_number)"
        want = {
            "ack with the sent number": {((G, S, W), "exit", "None")},
            "ack with another number": {((G, S, W), "raise ManagementConnectionError", "None")},
            "nak": {((G, S, W), "raise ManagementConnectionError", "None")},
            "timeout then ack": {((G, S, W + ":timeout", S, W), "exit", "None")},
            "timeout twice": {((G, S, W + ":timeout", S, W + ":timeout"), "raise ManagementConnectionTimeout", "None")},
            "not acknowledged service": {((G, S), "exit", "None")},
            "confirmation error": {((G, S + ":fails"), "raise ManagementConnectionError", "None")},
            "disconnected": {((), "raise ManagementConnectionRefused", "None")},
        }[label]
        chk.ob("send-data-scenario", sd.site(), res == want, f"{label}: {sorted(map(str, res))}; reference {sorted(map(str, want))}", key=f"send|{label}" + ("" if res == want else f"|{sorted(map(str, res))}"))
    at = repo.module_const(M, "MANAGAMENT_ACK_TIMEOUT"); ct = repo.module_const(M, "MANAGAMENT_CONNECTION_TIMEOUT")
    chk.ob("timeouts-bounded", sd.site(), isinstance(at, (int, float)) and isinstance(ct, (int, float)) and 0 < at <= 10 and 0 < ct <= 30, f"MANAGAMENT_ACK_TIMEOUT={at!r}, MANAGAMENT_CONNECTION_TIMEOUT={ct!r} (finite constants: bounded time)", key="timeouts")
    # _receive
    rc = repo.func(M, "P2PConnection._receive")
    chk.unit(rc)
    cfgr = CFG(rc.node)
    for label, ev, expected, payload_cls in (("matching response", "ok", "APCIResponse", "APCIResponse"), ("other class", "ok", "APCIResponse", "GroupValueRead"), ("no expectation", "ok", None, "GroupValueRead"), ("timeout", "timeout", "APCIResponse", None)):
        def cm(c, env):
            n = call_name(c)
            if n.endswith("create_future"):
                return [Outcome(None, Obj("Future", "fresh"))]
            if n.endswith("get_event_loop"):
                return [Outcome(None, Obj("x", "x"))]
            return None
        am = AbsMachine(cfgr, exc, cm)
        def isin(cls_name, type_name):
            if type_name == "expected_payload":
                return cls_name == expected
            return class_isinstance(repo)(cls_name, type_name)
        am.isinstance_fn = isin
        base = am.step
        def step(node, env):
            a = node.ast
            if node.kind == "stmt" and isinstance(a, ast.Assign) and isinstance(a.value, ast.Await) and ast.unparse(a.value.value) == "self._response_waiter":
                e2 = dict(env); tr = tuple(env.get("trace", ()))
                w = [x for x in enclosing_with_items(node.withs) if x.startswith("asyncio.timeout(")]
                tag = f"AWAIT_RESPONSE[{w[0] if w else 'UNBOUNDED'}]"
                if ev == "timeout":
                    e2["trace"] = tr + (tag + ":timeout",); e2["#raised"] = "TimeoutError"
                    return [(f"goto:{am._exc_target(node, 'TimeoutError')}", e2)]
                e2["trace"] = tr + (tag,)
                e2[ast.unparse(a.targets[0])] = Obj("Telegram", "resp", (("payload", Obj(payload_cls, "pl")),))
                return [("next", e2)]
            return base(node, env)
        paths = Explorer(cfgr, repo, step).run(cfgr.entry, [], {"expected_payload": Obj("type", expected) if expected else None, "self._response_waiter": Obj("Future", "old")})
        res = {(tuple(t for t in p.env.get("trace", ()) if not t.startswith("raise:")), p.end_kind if p.end_kind == "exit" else f"raise {p.env.get('#raised')}", repr(p.env.get("self._response_waiter"))) for p in paths}
        W = "AWAIT_RESPONSE[asyncio.timeout(MANAGAMENT_CONNECTION_TIMEOUT)]"
        FR = repr(Obj("Future", "fresh"))
        want = {"matching response": {((W,), "exit", FR)}, "other class": {((W,), "raise ManagementConnectionError", FR)}, "no expectation": {((W,), "exit", FR)}, "timeout": {((W + ":timeout",), "raise ManagementConnectionTimeout", FR)}}[label]
        chk.ob("receive-scenario", rc.site(), res == want, f"{label}: {sorted(map(str, res))}; reference {sorted(map(str, want))}", key=f"recv|{label}" + ("" if res == want else f"|{sorted(map(str, res))}"))
    # request(): state check, expectation, order
    rq = repo.func(M, "P2PConnection.request")
    chk.unit(rq)
    src = ast.unparse(rq.node)
    cfgq = CFG(rq.node)
    sdn = [n for n in cfgq.nodes if n.ast is not None and n.kind == "stmt" and any(call_name(c) == "self.send_data" for c in calls(n.ast))]
    from ..astx import inline_locals
    pp = rq.node.args.args[1].arg
    want_exp = f"{pp}.RESPONSE_TYPE if isinstance({pp}, APCIRequest) else None"
    rcn = [n for n in cfgq.nodes if n.ast is not None and n.kind == "stmt" and any(call_name(c) == "self._receive" and [ast.unparse(inline_locals(rq.node, a)) for a in c.args] == [want_exp] for c in calls(n.ast))]
    mf = cfgq.must_facts()
    ok = len(sdn) == 1 and len(rcn) == 1 and cfgq.dominates(sdn[0].id, rcn[0].id) and ("self._connected", True) in mf[sdn[0].id]
    chk.ob("request-shape", rq.site(), ok, "request(): refuses when disconnected, sends, then receives with the response type declared by the request class", key="request-shape")
    ws = [w for w in attr_writes(repo, "_expected_sequence_number", include_mutators=False)]
    chk.ob("expected-number-writers", rq.site(), sorted(w.func.qualname for w in ws) == ["P2PConnection.__init__", "P2PConnection.process"], f"_expected_sequence_number writers: {[w.func.qualname for w in ws]}", key="expected-writers")


def error_conversion_and_leftovers(chk: Check, repo: Repo) -> None:
    """(1) Every hand-over of a telegram to the link layer inside a P2PConnection method is covered by handlers that
    turn a CommunicationError (ConfirmationError is one) into a management error — a call sitting in an `except` body
    is NOT covered by that try's other handlers and needs its own.  (2) request() drops a telegram left in the
    response future by an earlier, failed exchange before it sends, so each response is used for its own request."""
    exc = ExcTable(repo)
    cls = repo.cls(M, "P2PConnection")
    n_sites = 0
    for mname in ("connect", "disconnect", "send_data"):
        f = cls.methods[mname]
        chk.unit(f)
        par = parents(f.node)
        for c in calls(f.node):
            if not call_name(c).endswith("cemi_handler.send_telegram"):
                continue
            n_sites += 1
            covered = False
            node: ast.AST = c
            while node is not f.node:
                up = par[node]
                if isinstance(up, ast.Try) and any(node is b or any(node is y for y in ast.walk(b)) for b in up.body):
                    for h in up.handlers:
                        names = [ast.unparse(x).split(".")[-1] for x in (h.type.elts if isinstance(h.type, ast.Tuple) else [h.type])] if h.type is not None else ["BaseException"]
                        if any(exc.is_subclass("CommunicationError", n_) for n_ in names):
                            rs = [x for b in h.body for x in ast.walk(b) if isinstance(x, ast.Raise) and x.exc is not None]
                            if rs and all(isinstance(r.exc, ast.Call) and exc.is_subclass(call_name(r.exc).split(".")[-1], "ManagementConnectionError") for r in rs):
                                covered = True
                node = up
            cfg_f = CFG(f.node)
            mf_f = cfg_f.must_facts()
            unacked = any(("wait_for_ack", False) in mf_f.get(n_.id, frozenset()) for n_ in cfg_f.nodes if n_.ast is not None and n_.kind == "stmt" and any(y is c for y in ast.walk(n_.ast)))
            if unacked:
                # the fire-and-forget form send_data(..., wait_for_ack=False) is not a management request: request() always
                # passes the default (checked below); its link errors reach the caller of that explicit send unchanged
                chk.ob("link-errors-become-management-errors", f.site(c), True, f"P2PConnection.{mname}: unacknowledged send (wait_for_ack=False) — not on the request path", key=f"convert|{mname}|unacked")
                continue
            chk.ob("link-errors-become-management-errors", f.site(c), covered, f"P2PConnection.{mname}: `{ast.unparse(c)[:60]}` " + ("is covered by a handler converting CommunicationError to a management error" if covered else "is not covered by any handler for CommunicationError that applies at this point (handlers of a try do not cover its own except bodies): the link error escapes request()/send_data() as a non-management error"), key=f"convert|{mname}|{n_sites}")
    chk.floor("link-layer hand-overs in P2PConnection", n_sites, 4)
    rq = repo.func(M, "P2PConnection.request")
    cfg = CFG(rq.node)
    sd_calls = [x for x in calls(rq.node) if call_name(x) == "self.send_data"]
    chk.ob("link-errors-become-management-errors", rq.site(), len(sd_calls) == 1 and len(sd_calls[0].args) == 1 and not sd_calls[0].keywords, "request() sends with the acknowledged form send_data(payload)", key="convert|request-uses-acked-send")
    sends = [n.id for n in cfg.nodes if n.ast is not None and n.kind == "stmt" and any(call_name(x) == "self.send_data" for x in calls(n.ast))]
    drops = []
    for n in walk_local(rq.node):
        if isinstance(n, ast.If) and ast.unparse(n.test) == "self._response_waiter.done()":
            if any(isinstance(b, ast.Assign) and ast.unparse(b.targets[0]) == "self._response_waiter" and isinstance(b.value, ast.Call) and call_name(b.value).endswith("create_future") for b in n.body):
                drops.append(n)
    ok = False
    if len(sends) == 1 and drops:
        tests = [x.id for x in cfg.nodes if x.kind == "test" and x.ast is drops[0].test]
        ok = any(cfg.dominates(t, sends[0]) for t in tests)
        # ... with no suspension point between the two: a late answer to the previous exchange that arrives while this
        # request sleeps (the rate-limit pause) fills the fresh future and is returned as this request's answer
        if ok:
            fwd = cfg.reachable(tests, include_start=False, edge_ok=cfg.normal_only)
            back = {n.id for n in cfg.nodes if sends[0] in cfg.reachable([n.id], include_start=False, edge_ok=cfg.normal_only)}
            between = [cfg.nodes[i] for i in fwd & back if i != sends[0]]
            susp = [n for n in between if n.ast is not None and any(isinstance(x, (ast.Await, ast.AsyncWith, ast.AsyncFor)) for x in ast.walk(n.ast) if not isinstance(x, (ast.FunctionDef, ast.AsyncFunctionDef, ast.Lambda)))]
            ok = not susp
    chk.ob("leftover-response-is-dropped-before-sending", rq.site(), ok, "request(): a response future that is already done when the request starts is replaced before send_data (what it holds answers an earlier exchange)" if ok else "request() sends without clearing a response left over by an earlier exchange (answer to a request that failed on its acknowledge, or arrived after the response timeout): that telegram is returned as the answer to this request and the real answer is dropped", key="leftover-response")


def run(chk: Check, repo: Repo) -> None:
    from .common_rules import refusal_during_connect_is_heard
    refusal_during_connect_is_heard(chk, repo)
    error_conversion_and_leftovers(chk, repo)
    p2p_process(chk, repo)
    mgmt_process(chk, repo)
    send_and_receive(chk, repo)
    chk.rule("E6 future typestate inside E7 decision tables of P2PConnection.process and Management.process; abstract path enumeration of send_data/_receive over ack/timeout scripts with symbolic numbers mod 16")
    chk.assume("frames reach Management.process from CEMIHandler.telegram_received once per received frame (C14)")
