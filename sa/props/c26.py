"""C26 — heartbeat gives up exactly after four consecutive failures.

Rule: automaton equivalence.  All paths of `ConnectionHeartbeat._run` from the
loop head back to the loop head / to an exit are enumerated over the abstract
outcomes of one connection-state request {None, success, failure, raises
CommunicationError}; the set of event traces must equal the reference set:

  SLEEP(HEARTBEAT_RATE) F^k OK            -> back to loop head   (k = 0..3)
  SLEEP(HEARTBEAT_RATE) F^k NONE          -> return, no failure callback (k = 0..3)
  SLEEP(HEARTBEAT_RATE) F^4 FAILCB        -> return
  SLEEP(HEARTBEAT_RATE) F^k RAISE FAILCB  -> return               (k = 0..3)
"""

from __future__ import annotations

import ast

from ..absmachine import AbsMachine, Outcome, Raise, UNKNOWN
from ..astx import call_name, calls, method_name
from ..cfg import CFG
from ..exctable import ExcTable
from ..explore import Explorer, const_range_bound
from ..loader import NOFOLD, AnalysisError, Repo
from ..report import Check

MOD = "xknx.io.data_connection"


def heartbeat_callbacks(chk: Check, repo: Repo) -> None:
    """The automaton counts what the `send_connectionstate` callable reports, so every callable wired into a
    ConnectionHeartbeat has to report a failed request as a failure: in each of them, whatever the error status, a
    RequestResponseError of the ConnectionState request ends in `return False, <status>`; only the normal completion
    of the request returns True; `None` (stop quietly) only without a communication channel."""
    from ..astx import call_sites, walk_local
    sites = [(f, c) for f, c in call_sites(repo, "ConnectionHeartbeat")]
    cbs = []
    for f, c in sites:
        for k in c.keywords:
            if k.arg == "send_connectionstate" and isinstance(k.value, ast.Attribute) and isinstance(k.value.value, ast.Name) and k.value.value.id == "self" and f.cls is not None:
                for cls_ in [f.cls] + repo.subclasses(f.cls, strict=True):
                    m = repo.lookup_method(cls_, k.value.attr)
                    if m is not None and m not in cbs:
                        cbs.append(m)
    chk.count("heartbeat callbacks wired into ConnectionHeartbeat", len(cbs))
    chk.floor("heartbeat callbacks wired into ConnectionHeartbeat", len(cbs), 2)
    for m in cbs:
        chk.unit(m)
        cfg = CFG(m.node)
        mf = cfg.must_facts()
        problems = []
        reqs = [n for n in walk_local(m.node) if isinstance(n, ast.Await) and isinstance(n.value, ast.Call) and call_name(n.value).endswith(".request")]
        if len(reqs) != 1:
            problems.append(f"{len(reqs)} awaited requests")
        tries = [t for t in walk_local(m.node) if isinstance(t, ast.Try) and any(x is r for r in reqs for b in t.body for x in ast.walk(b))]
        handler_returns = []
        for t in tries:
            for h in t.handlers:
                for x in [y for b in h.body for y in ast.walk(b)]:
                    if isinstance(x, ast.Return):
                        handler_returns.append(x)
                        v = x.value
                        if not (isinstance(v, ast.Tuple) and len(v.elts) == 2 and isinstance(v.elts[0], ast.Constant) and v.elts[0].value is False):
                            problems.append(f"line {x.lineno}: a failed request ends in `return {ast.unparse(v) if v is not None else ''}` instead of (False, status)")
                if not any(isinstance(y, (ast.Return, ast.Raise)) for b in h.body for y in ast.walk(b)):
                    problems.append(f"handler at line {h.lineno} falls through to the success return")
        for n in cfg.nodes:
            if isinstance(n.ast, ast.Return) and not any(n.ast is r for r in handler_returns):
                v = n.ast.value
                if isinstance(v, ast.Tuple) and v.elts and isinstance(v.elts[0], ast.Constant) and v.elts[0].value is True:
                    continue  # success: reached by normal completion of the request (the handlers above all return / raise)
                if v is None or (isinstance(v, ast.Constant) and v.value is None):
                    if not any(val and a.endswith("communication_channel is None") for a, val in mf[n.id]):
                        problems.append(f"line {n.ast.lineno}: `return None` (ends the heartbeat) not guarded by a missing communication channel")
                    continue
                if isinstance(v, ast.Tuple) and v.elts and isinstance(v.elts[0], ast.Constant) and v.elts[0].value is False:
                    continue
                problems.append(f"line {n.ast.lineno}: unclassified return `{ast.unparse(n.ast)}`")
        chk.ob("heartbeat-callback-reports-every-failed-request", m.site(), not problems, f"{m.qualname}: " + ("request failure -> (False, status); normal completion -> (True, None); no channel -> None" if not problems else "; ".join(problems)), key=f"callback|{m.qualname}")


def reconnect_stops_heartbeat(chk: Check, repo: Repo, owner_classes: set[str]) -> None:
    """"stops quietly once the connection is gone ... declared lost, once": whoever hands the lost connection over to a
    reconnect task stops the heartbeat itself, in the same step - a heartbeat that is already woken in this loop
    iteration otherwise runs before the reconnect task does: it repeats its request on the dead connection and declares
    the same connection lost a second time."""
    n = 0
    for f in repo.all_functions():
        if f.cls is None or not any(c.name in owner_classes for c in repo.mro(f.cls)):
            continue
        cfg = CFG(f.node)
        # methods of the class that stop the heartbeat on every path
        def stops(call: ast.Call, depth: int = 2) -> bool:
            nm = call_name(call)
            if nm == "self.stop_heartbeat" or nm == "self._heartbeat.stop":
                return True
            if nm.startswith("self.") and nm.count(".") == 1 and depth > 0:
                m = repo.lookup_method(f.cls, nm[5:])
                if m is not None and not m.is_async:
                    mc = CFG(m.node)
                    hit = [x.id for x in mc.nodes if x.kind == "stmt" and x.ast is not None and any(stops(c2, depth - 1) for c2 in calls(x.ast))]
                    return bool(hit) and mc.all_paths_hit(mc.entry, hit, ends=[mc.exit])
            return False
        for node in cfg.nodes:
            if node.kind != "stmt" or node.ast is None:
                continue
            for c in calls(node.ast):
                if call_name(c) == "asyncio.create_task" and c.args and isinstance(c.args[0], ast.Call) and "reconnect" in call_name(c.args[0]):
                    n += 1
                    chk.unit(f)
                    stoppers = [x.id for x in cfg.nodes if x.kind == "stmt" and x.ast is not None and x.id != node.id and any(stops(c2) for c2 in calls(x.ast))]
                    ok = any(cfg.dominates(sid, node.id) for sid in stoppers)
                    chk.ob("lost-connection-stops-the-heartbeat-at-once", f.site(c), ok, f"{f.qualname} starts {ast.unparse(c.args[0])} as a task" + (" after stopping the heartbeat" if ok else " and leaves the heartbeat running until that task gets to run"), key=f"reconnect-stop|{f.qualname}")
    chk.floor("reconnect task creation sites in heartbeat owners", n, 1)


def run(chk: Check, repo: Repo) -> None:
    heartbeat_callbacks(chk, repo)
    fi = repo.func(MOD, "ConnectionHeartbeat._run")
    cls = repo.cls(MOD, "ConnectionHeartbeat")
    init = repo.func(MOD, "ConnectionHeartbeat.__init__")
    chk.unit(fi)
    chk.unit(init)
    chk.rule("E4/E7 automaton equivalence: abstract path enumeration of the heartbeat loop vs the 4-failure reference automaton")

    # slots: which attributes hold the send callable and the failure callable (read from __init__)
    params = [a.arg for a in init.node.args.args]
    send_attr = fail_attr = None
    for st in init.node.body:
        if isinstance(st, (ast.Assign, ast.AnnAssign)):
            tgt = st.targets[0] if isinstance(st, ast.Assign) else st.target
            val = st.value
            if isinstance(tgt, ast.Attribute) and isinstance(val, ast.Name) and val.id in params:
                if val.id == "send_connectionstate":
                    send_attr = tgt.attr
                if val.id == "on_failure":
                    fail_attr = tgt.attr
    if not send_attr or not fail_attr:
        raise AnalysisError("ConnectionHeartbeat.__init__: send_connectionstate / on_failure slots not found")

    rate = repo.module_const(MOD, "HEARTBEAT_RATE")
    chk.ob("heartbeat-rate", f"xknx/io/const.py:HEARTBEAT_RATE", rate is not NOFOLD and rate == 70,
           f"HEARTBEAT_RATE folds to {rate!r}; the statement's 'heartbeat period' is the KNX 60 s +10 s tolerance constant = 70", key="heartbeat-rate")

    cfg = CFG(fi.node)
    exc = ExcTable(repo)

    def call_model(c: ast.Call, env):
        name = call_name(c)
        if name == f"self.{send_attr}":
            return [
                Outcome("NONE", None),
                Outcome("OK", (True, None)),
                Outcome("F", (False, "status")),
                Outcome("RAISE", Raise("CommunicationError")),
            ]
        if name == f"self.{fail_attr}":
            return [Outcome("FAILCB", None)]
        if name == "asyncio.sleep":
            v = repo.fold(c.args[0], fi.module, cls) if c.args else NOFOLD
            return [Outcome(f"SLEEP({v if v is not NOFOLD else ast.unparse(c.args[0])})", None)]
        return None

    am = AbsMachine(cfg, exc, call_model)
    ex = Explorer(cfg, repo, am.step, const_range_bound(repo, fi.module, cls))
    # loop head: the join node of the outermost `while`
    heads = [n for n in cfg.nodes if n.kind == "join" and isinstance(n.ast, ast.While) and not n.loops and n.succ and n.pred and any(l in ("loop", "continue") for _, l in n.pred)]
    if len(heads) != 1:
        raise AnalysisError(f"expected one outer loop head in _run, found {len(heads)}")
    head = heads[0].id
    # loop-carried state: explore from every distinct abstract state in which the loop head is reached (fixpoint)
    pre = ex.run(cfg.entry, [head], {})
    chk.ob("entry-to-loop", fi.site(), all(p.end == head and not p.env.get("trace") for p in pre), "function entry reaches the heartbeat loop head without sending anything", key="entry-to-loop")

    def state_of(env):
        return tuple(sorted((k, repr(v)) for k, v in env.items() if k not in ("trace",) and not k.startswith("#")))

    pending = []
    seen_states = set()
    for p in pre:
        if p.end == head:
            e = {k: v for k, v in p.env.items() if k != "trace"}
            if state_of(e) not in seen_states:
                seen_states.add(state_of(e)); pending.append(e)
    got: dict[tuple, set[str]] = {}
    n_paths = 0
    while pending:
        if len(seen_states) > 64:
            raise AnalysisError("heartbeat loop: more than 64 distinct loop-head states (unbounded loop-carried state)")
        e0 = pending.pop()
        paths = ex.run(head, [head], dict(e0))
        n_paths += len(paths)
        for p in paths:
            tr = p.env.get("trace", ())
            end = "head" if p.end == head else ("return" if p.end == cfg.exit else "raise")
            got.setdefault(tuple(tr), set()).add(end)
            if p.end == head:
                e = {k: v for k, v in p.env.items() if k != "trace"}
                if state_of(e) not in seen_states:
                    seen_states.add(state_of(e)); pending.append(e)
    chk.count("paths_enumerated", n_paths)
    chk.count("loop_head_states", len(seen_states))

    S = f"SLEEP({rate})"
    ref: dict[tuple, set[str]] = {}
    for k in range(4):
        ref[(S,) + ("F",) * k + ("OK",)] = {"head"}
        ref[(S,) + ("F",) * k + ("NONE",)] = {"return"}
        ref[(S,) + ("F",) * k + ("RAISE", "FAILCB")] = {"return"}
    ref[(S,) + ("F",) * 4 + ("FAILCB",)] = {"return"}

    for tr, ends in sorted(ref.items()):
        ok = got.get(tr) == ends
        chk.ob("reference-trace-present", fi.site(), ok, f"trace {' '.join(tr)} -> {sorted(ends)}; code: {sorted(got.get(tr, []))}", key=f"ref|{' '.join(tr)}")
    for tr, ends in sorted(got.items()):
        if tr not in ref:
            chk.ob("no-extra-trace", fi.site(), False, f"code admits trace {' '.join(tr)} -> {sorted(ends)} which the reference automaton (4 consecutive failures) does not", key=f"extra|{' '.join(tr)}|{sorted(ends)}")
    chk.extra["reference_traces"] = len(ref)
    chk.assume("send_connectionstate raises only CommunicationError (documented contract of the callable); outcomes abstracted to {None, success, failure, raise}")
    chk.assume("on_failure may raise; then the task ends with that exception (not part of C26)")

    # who passes the callbacks: the heartbeat owners must hand in a function that reports None when the connection is gone
    owners = [(f, c) for f in repo.all_functions() for c in calls(f.node) if method_name(c) == "ConnectionHeartbeat"]
    chk.floor("heartbeat_owner_sites", len(owners), 2)
    for f, c in owners:
        chk.unit(f)
        kw = {k.arg for k in c.keywords}
        chk.ob("owner-passes-callbacks", f.site(c), {"send_connectionstate", "on_failure"} <= kw or len(c.args) >= 3,
               f"{ast.unparse(c)[:120]}", key=f"owner|{f.ref}")
    reconnect_stops_heartbeat(chk, repo, {f.cls.name for f, _ in owners if f.cls is not None})
