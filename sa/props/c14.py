"""C14 — received link frames reach exactly the right consumer, once; confirmation ordering.

 (a) decision table of CEMIHandler.handle_cemi_frame over {data kind} x {message code} x
     {data-secure configured?} x {frame secured?} x {decrypt outcome}: DELIVER (telegram_received)
     at most once, only for L_Data.ind; confirmation/request frames never; decrypt failures and
     undecodable secured frames go to the key-issue handler only.
 (b) decision table of telegram_received over {TPCI class} x {destination kind/own}: queue put
     exactly once iff T_Data_Group; management iff not (individual and != own address).
 (c) CEMIFrame.from_knx builds link-layer data only for the three L_Data codes.
 (d) send_telegram: clear() precedes the hand-over, which precedes the bounded wait; TimeoutError
     becomes ConfirmationError; the event is set only on L_Data.con and cleared only there.
"""

from __future__ import annotations

import ast

from ..absmachine import AbsMachine, Obj, Outcome, Raise, UNKNOWN, class_isinstance
from ..astx import attr_writes, call_name, calls, enclosing_with_items, method_name, walk_local
from ..cfg import CFG
from ..exctable import ExcTable
from ..explore import Explorer
from ..loader import NOFOLD, AnalysisError, EnumMember, Repo
from ..report import Check, canon

H = "xknx.cemi.cemi_handler"


def _enum_hook(repo, fi, extra=None):
    def hook(e, env):
        if isinstance(e, ast.Attribute):
            v = repo.fold(e, fi.module, fi.cls)
            if isinstance(v, EnumMember):
                return v
        if extra:
            return extra(e, env)
        return UNKNOWN

    return hook


def table_handle_cemi_frame(chk: Check, repo: Repo) -> None:
    fi = repo.func(H, "CEMIHandler.handle_cemi_frame")
    chk.unit(fi)
    cfg = CFG(fi.node)
    exc = ExcTable(repo)
    codes = repo.enum_members(repo.cls("xknx.cemi.const", "CEMIMessageCode"))
    enum_ref = "xknx.cemi.const:CEMIMessageCode"
    data_classes = [c.name for c in repo.subclasses(repo.cls("xknx.cemi.cemi_frame", "CEMIData"), strict=True)]
    if "CEMILData" not in data_classes:
        raise AnalysisError("CEMILData vanished")
    param = [a.arg for a in fi.node.args.args][1]
    n_cells = 0
    for dcls in data_classes:
        for cname in codes:
            for ds_conf in (False, True):
                for secured in (False, True):
                    outcomes = ["ok", "DataSecureError"] if ds_conf else ["n/a"]
                    for dec in outcomes:
                        n_cells += 1
                        data = Obj(dcls, "rx")

                        def call_model(c: ast.Call, env, dec=dec, secured=secured):
                            n = call_name(c)
                            if n == "is_data_secure":
                                return [Outcome(None, secured)]
                            if n == "self.data_secure.received_cemi":
                                if dec == "ok":
                                    return [Outcome("DECRYPT:ok", Obj("CEMILData", "plain"))]
                                return [Outcome("DECRYPT:fail", Raise("DataSecureError"))]
                            if n == "self.telegram_received":
                                return [Outcome("DELIVER", None)]
                            if n == "self.handle_data_secure_key_issue":
                                return [Outcome("KEYISSUE", None)]
                            if n == "self._l_data_confirmation_event.set":
                                return [Outcome("SETCON", None)]
                            if n == "self._l_data_confirmation_event.clear":
                                return [Outcome("CLEARCON", None)]
                            if n.endswith(".telegram") and not c.args:
                                return [Outcome(None, Obj("Telegram", "t"))]
                            if n.endswith("put_nowait"):
                                return [Outcome("PUT", None)]
                            if n.endswith("management.process"):
                                return [Outcome("MGMT", None)]
                            return None

                        env = {
                            param: Obj("CEMIFrame", "f", (("code", EnumMember(enum_ref, cname)), ("data", data))),
                            f"{param}.data": data,
                            f"{param}.code": EnumMember(enum_ref, cname),
                            "self.data_secure": Obj("DataSecure", "ds") if ds_conf else None,
                        }
                        am = AbsMachine(cfg, exc, call_model, _enum_hook(repo, fi))
                        am.isinstance_fn = class_isinstance(repo)
                        paths = Explorer(cfg, repo, am.step).run(cfg.entry, [], env)
                        traces = {(tuple(p.env.get("trace", ())), p.end_kind) for p in paths}
                        # reference
                        if dcls != "CEMILData":
                            want = {((), "exit")}
                        elif cname == "L_DATA_CON":
                            want = {(("SETCON",), "exit")}
                        elif cname == "L_DATA_REQ":
                            want = {((), "exit")}
                        elif cname == "L_DATA_IND":
                            if not ds_conf:
                                want = {(("KEYISSUE",), "exit")} if secured else {(("DELIVER",), "exit")}
                            elif dec == "ok":
                                want = {(("DECRYPT:ok", "DELIVER"), "exit")}
                            else:
                                want = {(("DECRYPT:fail", "KEYISSUE"), "exit")}
                        else:
                            # every other service (L_Raw, L_Poll_Data, L_Busmon, M_*): today's parser refuses them before
                            # this point (obligation (c) on from_knx), a frame built by a caller - or a parser taught one of
                            # them later - is still not an indication: nothing is delivered and no send is released
                            want = {((), "exit")}
                        ok = traces == want
                        if not ok or dcls == "CEMILData":
                            chk.ob("routing-cell", fi.site(), ok,
                                   f"data={dcls} code={cname} data_secure={'configured' if ds_conf else 'none'} secured={secured} decrypt={dec}: code {sorted(traces)}; reference {sorted(want)}",
                                   key=f"handle|{dcls}|{cname}|{ds_conf}|{secured}|{dec}|{sorted(traces)}" if not ok else f"handle|{dcls}|{cname}|{ds_conf}|{secured}|{dec}")
    chk.count("handle_cemi_frame_cells", n_cells)
    # delivered telegram: direction INCOMING and data_secure flag computed from the frame *as received*
    nodes = {canon(n.ast): n for n in cfg.nodes if n.kind == "stmt" and n.ast is not None}
    deliver = [n for n in cfg.nodes if n.kind == "stmt" and n.ast is not None and any(call_name(c) == "self.telegram_received" for c in calls(n.ast))]
    flag = [n for n in cfg.nodes if n.kind == "stmt" and isinstance(n.ast, ast.Assign) and any(call_name(c) == "is_data_secure" for c in calls(n.ast))]
    dec = [n for n in cfg.nodes if n.kind == "stmt" and n.ast is not None and any(call_name(c) == "self.data_secure.received_cemi" for c in calls(n.ast))]
    ok = bool(deliver and flag and dec) and all(cfg.dominates(flag[0].id, d.id) for d in dec)
    chk.ob("secure-flag-before-decrypt", fi.site(), ok, "the data-secure flag of the delivered telegram is computed from the received frame before the payload is replaced by the decrypted one", key="secure-flag-before-decrypt")


def table_telegram_received(chk: Check, repo: Repo) -> None:
    fi = repo.func(H, "CEMIHandler.telegram_received")
    chk.unit(fi)
    cfg = CFG(fi.node)
    exc = ExcTable(repo)
    tp = repo.cls("xknx.telegram.tpci", "TPCI")
    tpcis = [c.name for c in repo.subclasses(tp, strict=True)]
    chk.floor("tpci_classes", len(tpcis), 9)
    param = [a.arg for a in fi.node.args.args][1]
    own = Obj("IndividualAddress", "own")
    cells = 0
    for t in tpcis:
        for dst in (Obj("GroupAddress", "g"), Obj("GroupAddress", "zero"), own, Obj("IndividualAddress", "other")):
            cells += 1

            def call_model(c, env):
                n = call_name(c)
                if n.endswith("telegrams.put_nowait"):
                    return [Outcome("PUT", None)]
                if n.endswith("management.process"):
                    return [Outcome("MGMT", None)]
                return None

            env = {f"{param}.tpci": Obj(t, "tp"), f"{param}.destination_address": dst, "self.xknx.current_address": own}
            am = AbsMachine(cfg, exc, call_model)
            am.isinstance_fn = class_isinstance(repo)
            paths = Explorer(cfg, repo, am.step).run(cfg.entry, [], env)
            traces = {(tuple(p.env.get("trace", ())), p.end_kind) for p in paths}
            # the property's matrix: group data -> queue; management only for a broadcast or a frame addressed to this
            # interface; everything else (foreign individual destination, group-addressed frames that are neither
            # T_Data_Group nor T_Data_Broadcast, e.g. T_Data_Tag_Group) reaches no consumer
            if t == "TDataGroup":
                want = {(("PUT",), "exit")}
            elif dst.cls == "IndividualAddress":
                want = {(("MGMT",), "exit")} if dst.tag == "own" else {((), "exit")}
            else:
                want = {(("MGMT",), "exit")} if t == "TDataBroadcast" else {((), "exit")}
            ok = traces == want
            chk.ob("consumer-cell", fi.site(), ok, f"tpci={t} destination={dst!r}: code {sorted(traces)}; reference {sorted(want)}", key=f"recv|{t}|{dst!r}" + ("" if ok else f"|{sorted(traces)}"))
    chk.count("telegram_received_cells", cells)


def check_from_knx_pairing(chk: Check, repo: Repo) -> None:
    fi = repo.func("xknx.cemi.cemi_frame", "CEMIFrame.from_knx")
    chk.unit(fi)
    cfg = CFG(fi.node)
    mf = cfg.must_facts()
    sites = [n for n in cfg.nodes if n.kind == "stmt" and n.ast is not None and any(call_name(c) == "CEMILData.from_knx" for c in calls(n.ast))]
    chk.floor("CEMILData.from_knx sites in CEMIFrame.from_knx", len(sites), 1)
    for s in sites:
        facts = mf[s.id]
        ok = False
        for text, val in facts:
            e = ast.parse(text, mode="eval").body
            if val and isinstance(e, ast.Compare) and len(e.ops) == 1 and isinstance(e.ops[0], ast.In) and isinstance(e.comparators[0], (ast.Tuple, ast.List, ast.Set)):
                vals = {repo.fold(x, fi.module, fi.cls) for x in e.comparators[0].elts}
                names = {v.name for v in vals if isinstance(v, EnumMember)}
                ok = names == {"L_DATA_IND", "L_DATA_REQ", "L_DATA_CON"} and len(names) == len(vals)
        chk.ob("ldata-only-for-ldata-codes", fi.site(s.ast), ok, "link-layer data is parsed only when code in (L_DATA_IND, L_DATA_REQ, L_DATA_CON)", key="ldata-only-for-ldata-codes")


def check_confirmation(chk: Check, repo: Repo) -> None:
    fi = repo.func(H, "CEMIHandler.send_telegram")
    chk.unit(fi)
    cfg = CFG(fi.node)
    ev = "self._l_data_confirmation_event"
    clear = [n for n in cfg.nodes if n.kind == "stmt" and n.ast is not None and any(call_name(c) == f"{ev}.clear" for c in calls(n.ast))]
    send = [n for n in cfg.nodes if n.kind == "stmt" and n.ast is not None and any(method_name(c) == "send_cemi" for c in calls(n.ast))]
    wait = [n for n in cfg.nodes if n.kind == "stmt" and n.ast is not None and any(call_name(c) == f"{ev}.wait" for c in calls(n.ast))]
    ok = len(clear) == 1 and len(send) == 1 and len(wait) == 1
    chk.ob("confirmation-shape", fi.site(), ok, f"one clear ({len(clear)}), one hand-over ({len(send)}), one wait ({len(wait)}) in send_telegram", key="confirmation-shape")
    if not ok:
        return
    c, s, w = clear[0], send[0], wait[0]
    chk.ob("clear-before-handover", fi.site(c.ast), cfg.dominates(c.id, s.id) and c.id not in cfg.reachable([s.id], include_start=False), "event.clear() dominates the hand-over to the interface and cannot run after it (a confirmation that arrived before the hand-over cannot satisfy the wait)", key="clear-before-handover")
    chk.ob("handover-before-wait", fi.site(w.ast), cfg.dominates(s.id, w.id), "the wait is reached only after send_cemi returned", key="handover-before-wait")
    chk.ob("success-needs-confirmation", fi.site(), cfg.all_paths_hit(cfg.entry, [w.id], ends=[cfg.exit]) and all(lab != "exc" or True for _, lab in w.succ), "every normal return passes the wait for the confirmation event", key="success-needs-confirmation")
    # the event is one per handler and says nothing about the frame it confirms: between clear() and the end of the wait
    # no second send may be between its own clear() and wait() (its clear() wipes the confirmation the first is about to
    # wait for; the first's confirmation, latched, satisfies the second before its frame left) - all three statements sit
    # inside one `async with` of a lock that is created once per handler
    common = [x for x in enclosing_with_items(c.withs) if x in enclosing_with_items(s.withs) and x in enclosing_with_items(w.withs) and x.startswith("self.")]
    locks = []
    for x in common:
        lw = attr_writes(repo, x.split(".", 1)[1], include_mutators=False)
        lw = [y for y in lw if y.func.cls is fi.cls]
        if len(lw) == 1 and lw[0].func.name == "__init__" and ast.unparse(lw[0].stmt.value) == "asyncio.Lock()":
            locks.append(x)
    chk.ob("one-send-between-clear-and-confirmation", fi.site(c.ast), bool(locks), f"clear(), hand-over and wait run under `async with {locks[0]}` (an asyncio.Lock created once in __init__)" if locks else "clear(), the hand-over and the wait for the confirmation are not serialised: a second send_telegram() (management T_ACK next to the telegram queue) clears the confirmation the first one waits for - a confirmed send fails with ConfirmationError - or completes on the first one's confirmation before its own frame left", key="confirmation|serialised")
    withs = enclosing_with_items(w.withs)
    tmo = [x for x in withs if x.startswith("asyncio.timeout(")]
    val = NOFOLD
    if tmo:
        val = repo.fold(ast.parse(tmo[0], mode="eval").body.args[0], fi.module, fi.cls)
    chk.ob("bounded-wait", fi.site(w.ast), bool(tmo) and isinstance(val, (int, float)) and 0 < val <= 3, f"wait is inside asyncio.timeout({val!r}) (REQUEST_TO_CONFIRMATION_TIMEOUT, 3 s per 3/6/3 §4.1.5)", key="bounded-wait")
    # TimeoutError handler around the wait raises ConfirmationError
    ok_h = False
    for t in w.tries:
        for h in t.handlers:  # type: ignore[attr-defined]
            if h.type is not None and "TimeoutError" in ast.unparse(h.type):
                raises = [x for x in walk_local(h) if isinstance(x, ast.Raise) and x.exc is not None and "ConfirmationError" in ast.unparse(x.exc)]
                last = h.body[-1]
                ok_h = bool(raises) and isinstance(last, ast.Raise)
    chk.ob("timeout-becomes-confirmation-error", fi.site(w.ast), ok_h, "the TimeoutError of the bounded wait is converted to ConfirmationError (handler ends in raise)", key="timeout-becomes-confirmation-error")
    # census of the event: set only in handle_cemi_frame (on L_DATA_CON, table (a)), clear only here
    uses = []
    for f in repo.all_functions():
        for cl in calls(f.node):
            n = call_name(cl)
            if n.endswith("_l_data_confirmation_event.set") or n.endswith("_l_data_confirmation_event.clear"):
                uses.append((f, cl, n.rsplit(".", 1)[1]))
    chk.floor("confirmation_event_set_clear_sites", len(uses), 2)
    for f, cl, kind in uses:
        allowed = (kind == "set" and f.qualname == "CEMIHandler.handle_cemi_frame") or (kind == "clear" and f.qualname == "CEMIHandler.send_telegram")
        chk.ob("confirmation-event-owner", f.site(cl), allowed, f"{kind}() of the confirmation event in {f.qualname} (allowed: set in handle_cemi_frame, clear in send_telegram)", key=f"confirmation-event-owner|{kind}|{f.qualname}")
    ws = attr_writes(repo, "_l_data_confirmation_event", include_mutators=False)
    chk.ob("confirmation-event-slot", fi.site(), len(ws) == 1 and ws[0].func.name == "__init__", "the event object is created once in __init__", key="confirmation-event-slot")


def own_address(chk: Check, repo: Repo) -> None:
    """`addressed to this interface` is decided against xknx.current_address (telegram_received cell table), so that
    slot has to follow the address the interface actually has: besides XKNX.__init__ it is written only by the
    interfaces' connect paths, each time unconditionally on the way to a successful return, from the address the
    server assigned (tunnel: the connect response's CRD) / the configured routing address."""
    ws = [w for w in attr_writes(repo, "current_address", include_mutators=False)]
    chk.count("writers of xknx.current_address", len(ws))
    chk.floor("writers of xknx.current_address", len(ws), 3)
    for w in ws:
        f = w.func
        if f.qualname == "XKNX.__init__":
            continue
        chk.unit(f)
        cfg = CFG(f.node)
        nodes = [n.id for n in cfg.nodes if n.ast is w.stmt]
        uncond = bool(nodes) and cfg.all_paths_hit(cfg.entry, nodes, [cfg.exit], edge_ok=cfg.normal_only)
        v = w.stmt.value if isinstance(w.stmt, (ast.Assign, ast.AnnAssign)) else None
        src = ast.unparse(v) if v is not None else "?"
        origin_ok = False
        why = ""
        if isinstance(v, ast.Attribute) and isinstance(v.value, ast.Name) and v.value.id == "self":
            # the attribute copied: either configuration set in __init__ only, or assigned just before from the connect response
            aw = [x for x in attr_writes(repo, v.attr, include_mutators=False) if x.func.cls is not None and f.cls is not None and (repo.is_subclass(f.cls, x.func.cls) or repo.is_subclass(x.func.cls, f.cls)) and x.receiver == "self"]
            local = [x for x in aw if x.func is f]
            if local:
                ln = [n.id for n in cfg.nodes if any(n.ast is x.stmt for x in local)]
                dom = any(cfg.dominates(a, b) for a in ln for b in nodes)
                def crd_first(e: ast.AST) -> bool:
                    """the assigned address itself, or an `or` chain that prefers it (anything else only as a fallback)"""
                    if isinstance(e, ast.BoolOp) and isinstance(e.op, ast.Or):
                        e = e.values[0]
                    return isinstance(e, ast.Attribute) and e.attr == "individual_address" and isinstance(e.value, ast.Attribute) and e.value.attr == "crd"
                from_crd = all(isinstance(x.stmt, (ast.Assign, ast.AnnAssign)) and crd_first(x.stmt.value) for x in local)
                origin_ok = dom and from_crd and all(x.func is f or x.func.name == "__init__" for x in aw)
                why = f"`{src}` is assigned before it, in the same function, from the connect response's CRD ({'yes' if from_crd else 'NO'}); other writers: {sorted({x.func.qualname for x in aw if x.func is not f})}"
            else:
                origin_ok = bool(aw) and all(x.func.name == "__init__" for x in aw)
                why = f"`{src}` is configuration written only in {sorted({x.func.qualname for x in aw})}"
        chk.ob("own-address-follows-the-interface-address", f.site(w.stmt), uncond and origin_ok, f"{f.qualname}: `{canon(w.stmt)}` is {'on every normal path to the return' if uncond else 'SKIPPED on some path to a successful return (the old address stays: frames for it still reach management, frames for the new one are dropped)'}; {why}", key=f"own-address|{f.qualname}")


def run(chk: Check, repo: Repo) -> None:
    own_address(chk, repo)
    table_handle_cemi_frame(chk, repo)
    table_telegram_received(chk, repo)
    check_from_knx_pairing(chk, repo)
    check_confirmation(chk, repo)
    chk.rule("E7 decision tables (abstract path enumeration over isinstance/enum cells) of handle_cemi_frame and telegram_received vs the routing oracle")
    chk.rule("E4 dominance/ordering clear -> hand-over -> bounded wait; E5 census of the confirmation event's set/clear sites")
    chk.assume("does not decide that a confirmation belongs to this frame (the code releases on any L_Data.con, as the property words it)")
    chk.assume("Management.process decides broadcast/own-address handling for non-group TPCIs (C43)")
