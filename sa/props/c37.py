"""C37 — the device registry dispatches each telegram to exactly the right devices.

 (a) ownership: the device list and the group-address index are mutated only by async_add /
     async_remove (E5 census), and in both the membership guard's raise precedes every mutation.
 (b) abstract evaluation of async_add / async_remove / process over abstract containers for every
     history of up to 4 add/remove operations on three devices with overlapping address sets
     (d1{g1,g2}, d2{g2,g3}, d3{g2}): after every operation the dispatch order for each address equals
     the naive scan of the registration list; misuse raises ValueError and changes nothing.
"""

from __future__ import annotations

import ast
from itertools import product

from ..absmachine import AbsMachine, ADict, AList, Obj, Outcome, Raise, Ref, UNKNOWN, class_isinstance, truth
from ..astx import attr_writes, call_name, calls, method_name, walk_local
from ..cfg import CFG
from ..exctable import ExcTable
from ..explore import Explorer
from ..loader import AnalysisError, Repo
from ..report import Check, canon

M = "xknx.devices.devices"


def _contains_expr(repo: Repo):
    m = repo.func(M, "Devices.__contains__")
    rets = [n for n in walk_local(m.node) if isinstance(n, ast.Return)]
    if len(rets) != 1 or not isinstance(rets[0].value, ast.Compare):
        raise AnalysisError("Devices.__contains__: single `return x in <list>` expected")
    return m, rets[0].value, m.node.args.args[1].arg


def _yield_from_expr(repo: Repo):
    m = repo.func(M, "Devices.devices_by_group_address")
    yf = [n for n in walk_local(m.node) if isinstance(n, ast.YieldFrom)]
    if len(yf) != 1:
        raise AnalysisError("devices_by_group_address: single `yield from` expected")
    return m, yf[0].value, m.node.args.args[1].arg


class Model:
    def __init__(self, chk: Check, repo: Repo) -> None:
        self.repo = repo
        self.exc = ExcTable(repo)
        self.fn = {q: repo.func(M, f"Devices.{q}") for q in ("async_add", "async_remove", "process")}
        for f in self.fn.values():
            chk.unit(f)
        self.cfgs = {q: CFG(f.node) for q, f in self.fn.items()}
        self.cm, self.cexpr, self.cparam = _contains_expr(repo)
        self.ym, self.yexpr, self.yparam = _yield_from_expr(repo)
        chk.unit(self.cm); chk.unit(self.ym)
        self.isinst = class_isinstance(repo)

    def run(self, q: str, env: dict) -> list:
        cfg = self.cfgs[q]
        box = {}

        def call_model(c: ast.Call, env_):
            n = call_name(c)
            am = box["am"]
            if method_name(c) == "group_addresses" and isinstance(c.func, ast.Attribute):
                d = am.ev(c.func.value, env_, {})
                if isinstance(d, Obj):
                    return [Outcome(None, d.get("gas"))]
            if n == "self.devices_by_group_address":
                arg = am.ev(c.args[0], env_, {})
                e3 = dict(env_); e3[self.yparam] = arg
                v = am._deref(am.ev(self.yexpr, e3, {}), e3)
                if isinstance(v, AList):
                    v = v.items
                return [Outcome(None, v)]
            if method_name(c) == "process" and isinstance(c.func, ast.Attribute):
                d = am.ev(c.func.value, env_, {})
                if isinstance(d, Obj) and d.cls == "Device":
                    return [Outcome(f"PROC:{d.tag}", None)]
            return None

        am = AbsMachine(cfg, self.exc, call_model)
        am.isinstance_fn = self.isinst
        box["am"] = am
        base = am.step

        def step(node, env_):
            a = node.ast
            if node.kind == "test" and isinstance(a, ast.Compare) and len(a.ops) == 1 and isinstance(a.ops[0], (ast.In, ast.NotIn)) and isinstance(a.comparators[0], ast.Name) and a.comparators[0].id == "self":
                e3 = dict(env_); e3[self.cparam] = am.ev(a.left, env_, {})
                r = truth(am.ev(self.cexpr, e3, {}))
                if r is None:
                    return None
                if isinstance(a.ops[0], ast.NotIn):
                    r = not r
                return [("true" if r else "false", dict(env_))]
            return base(node, env_)

        return Explorer(cfg, self.repo, step).run(cfg.entry, [], env)


def run(chk: Check, repo: Repo) -> None:
    # (a) ownership + guard order
    for attr in ("__index", "__devices"):
        ws = [w for w in attr_writes(repo, attr) if w.func.module.name == M]
        chk.floor(f"writers of {attr}", len(ws), 2)
        for w in ws:
            ok = w.func.qualname in ("Devices.__init__", "Devices.async_add", "Devices.async_remove")
            chk.ob("registry-writer", w.func.site(w.stmt), ok, f"{w.kind} on {attr} in {w.func.qualname}: `{canon(w.stmt)[:80]}`", key=f"writer|{attr}|{w.func.qualname}|{w.kind}")
    # aliases: `devices = self.__index[...]` then devices.remove(...) inside the two owners only
    for f in repo.all_functions():
        if f.module.name == M and f.qualname not in ("Devices.async_add", "Devices.async_remove", "Devices.__init__"):
            leaks = [n for n in walk_local(f.node) if isinstance(n, ast.Attribute) and n.attr in ("__index", "__devices") and isinstance(n.ctx, ast.Load)]
            for n in leaks:
                # a read is fine when it is only iterated / looked up; flag if it escapes by return without copy
                pass
    m = Model(chk, repo)
    for q in ("async_add", "async_remove"):
        fi = m.fn[q]
        cfg = m.cfgs[q]
        guard = [n for n in cfg.nodes if n.kind == "test" and isinstance(n.ast, ast.Compare) and isinstance(n.ast.comparators[0], ast.Name) and n.ast.comparators[0].id == "self"]
        raises = [n for n in cfg.nodes if isinstance(n.ast, ast.Raise)]
        muts = [n for n in cfg.nodes if n.kind == "stmt" and n.ast is not None and n.ast not in [r.ast for r in raises] and any(isinstance(x, ast.Call) for x in ast.walk(n.ast))]
        ok = len(guard) == 1 and len(raises) >= 1 and all(cfg.dominates(guard[0].id, x.id) for x in muts)
        chk.ob("guard-precedes-effects", fi.site(), ok, f"{q}: the membership guard dominates every effectful statement ('raises and changes nothing')", key=f"guard|{q}")

    # (a') which addresses a device "uses": every address of every remote value, unfiltered
    dga = repo.func("xknx.devices.device", "Device.group_addresses")
    chk.unit(dga)
    rets = [n for n in walk_local(dga.node) if isinstance(n, ast.Return)]
    ok = False
    detail = "single `return {ga for rv in self._iter_remote_values() for ga in rv.group_addresses()}` expected"
    if len(rets) == 1 and isinstance(rets[0].value, (ast.SetComp, ast.GeneratorExp, ast.ListComp)) or (len(rets) == 1 and isinstance(rets[0].value, ast.Call) and rets[0].value.args and isinstance(rets[0].value.args[0], (ast.GeneratorExp, ast.SetComp, ast.ListComp))):
        comp = rets[0].value if not isinstance(rets[0].value, ast.Call) else rets[0].value.args[0]
        gens = comp.generators
        ok = (len(gens) == 2 and not any(g.ifs for g in gens) and ast.unparse(gens[0].iter) == "self._iter_remote_values()" and isinstance(gens[1].iter, ast.Call) and method_name(gens[1].iter) == "group_addresses"
              and ast.unparse(gens[1].iter.func.value) == ast.unparse(gens[0].target) and ast.unparse(comp.elt) == ast.unparse(gens[1].target))
        detail = f"`{ast.unparse(rets[0].value)}`: all remote values, all their addresses, no filter"
    chk.ob("device-addresses-unfiltered", dga.site(), ok, detail, key="device-addresses")
    rga = repo.func("xknx.remote_value.remote_value", "RemoteValue.group_addresses")
    chk.unit(rga)
    cfg_r = CFG(rga.node)
    for ga, gs, passive in product((None, Obj("GroupAddress", "active")), (None, Obj("GroupAddress", "state")), ((), (Obj("GroupAddress", "p1"),), (Obj("GroupAddress", "p1"), Obj("GroupAddress", "p2")))):
        am_r = AbsMachine(cfg_r, m.exc if False else ExcTable(repo), lambda c, e: None)
        paths = Explorer(cfg_r, repo, am_r.step).run(cfg_r.entry, [], {"#trace_yields": True, "self.group_address": ga, "self.group_address_state": gs, "self.passive_group_addresses": passive})
        got = {tuple(sorted(p.env.get("trace", ()))) for p in paths}
        want = {tuple(sorted(f"YIELD({x!r})" for x in ([ga] if ga else []) + ([gs] if gs else []) + list(passive)))}
        chk.ob("remote-value-addresses-complete", rga.site(), got == want, f"active={ga!r} state={gs!r} passive={len(passive)}: yields {sorted(got)}; reference {sorted(want)}", key=f"rv-addresses|{ga is not None}|{gs is not None}|{len(passive)}")
    overrides = [c.name for c in repo.subclasses(repo.cls("xknx.remote_value.remote_value", "RemoteValue"), strict=True) if "group_addresses" in c.methods]
    dev_over = [c.name for c in repo.subclasses(repo.cls("xknx.devices.device", "Device"), strict=True) if "group_addresses" in c.methods]
    chk.ob("group-addresses-not-overridden", rga.site(), not overrides, f"RemoteValue subclasses overriding group_addresses(): {overrides}", key="ga-overrides|rv")
    for cname in dev_over:
        c = repo.cls([m_ for m_ in repo.modules if cname in repo.modules[m_].classes][0], cname)
        f_ = c.methods["group_addresses"]
        chk.unit(f_)
        rets_ = [n for n in walk_local(f_.node) if isinstance(n, ast.Return)]
        def superset(e: ast.AST) -> bool:
            if isinstance(e, ast.BinOp) and isinstance(e.op, ast.BitOr):
                return superset(e.left) or superset(e.right)
            return isinstance(e, ast.Call) and ast.unparse(e) == "super().group_addresses()"
        okc = bool(rets_) and all(r_.value is not None and superset(r_.value) for r_ in rets_)
        chk.ob("group-addresses-override-is-superset", f_.site(), okc, f"{cname}.group_addresses(): every return is super().group_addresses() or a union (|) containing it: {[ast.unparse(r_.value) for r_ in rets_]}", key=f"ga-overrides|{cname}")

    # (a3) the address set of a device is a function of the device alone: async_add indexes it and async_remove
    # un-indexes it, so an address set that depends on the registry (or on any other shared state reached through
    # self.xknx) makes the two disagree for some add/remove order
    dev = repo.cls("xknx.devices.device", "Device")
    n_ga = 0
    for c in [dev] + repo.subclasses(dev, strict=True):
        for mname in ("group_addresses", "has_group_address", "_iter_remote_values"):
            f_ = c.methods.get(mname)
            if f_ is None:
                continue
            n_ga += 1
            shared = sorted({ast.unparse(x) for x in ast.walk(f_.node) if isinstance(x, ast.Attribute) and ast.unparse(x).startswith("self.xknx")})
            chk.ob("device-addresses-depend-on-the-device-only", f_.site(), not shared, f"{f_.qualname} reads {shared or 'no shared state'}" + (" — the address index built at registration and the one torn down at removal can differ" if shared else ""), key=f"ga-pure|{f_.qualname}")
    chk.floor("device address methods examined", n_ga, 15)

    # (b) bounded histories over abstract containers
    gas = {"d1": ("g1", "g2"), "d2": ("g2", "g3"), "d3": ("g2",)}
    G = {g: Obj("GroupAddress", g) for g in ("g1", "g2", "g3", "g4")}
    D = {d: Obj("Device", d, (("gas", tuple(G[g] for g in gs)),)) for d, gs in gas.items()}
    ops = [(k, d) for k in ("add", "remove") for d in D]
    histories = 0
    failures: dict[str, str] = {}
    seen_states: set = set()

    def naive(reg: tuple, g: str) -> tuple:
        return tuple(d for d in reg if g in gas[d])

    def explore(state_env: dict, reg: tuple, depth: int, hist: tuple) -> None:
        nonlocal histories
        if depth == 0:
            return
        for kind, d in ops:
            histories += 1
            q = "async_add" if kind == "add" else "async_remove"
            env = dict(state_env); env["device"] = D[d]
            paths = m.run(q, env)
            legal = (d not in reg) if kind == "add" else (d in reg)
            label = " ".join(f"{k}({x})" for k, x in hist + ((kind, d),))
            ends = {p.end_kind for p in paths}
            if not legal:
                same = all(p.env.get("self.__index") == state_env["self.__index"] and p.env.get("self.__devices") == state_env["self.__devices"] for p in paths)
                if ends != {"raise"} or {p.env.get("#raised") for p in paths} != {"ValueError"} or not same:
                    failures.setdefault("misuse", f"{label}: must raise ValueError and change nothing; code ends {sorted(ends)} raised {sorted(str(p.env.get('#raised')) for p in paths)} unchanged={same}")
                continue
            if ends != {"exit"}:
                failures.setdefault("legal-op-raises", f"{label}: legal operation ends {sorted(ends)} ({sorted(str(p.env.get('#raised')) for p in paths)})")
                continue
            finals = {(repr(p.env.get("self.__index")), repr(p.env.get("self.__devices"))) for p in paths}
            if len(finals) != 1:
                failures.setdefault("nondeterministic", f"{label}: registry state depends on unrelated branches: {sorted(finals)[:2]}")
                continue
            p = paths[0]
            new_reg = reg + (d,) if kind == "add" else tuple(x for x in reg if x != d)
            new_env = {"self.__index": p.env.get("self.__index"), "self.__devices": p.env.get("self.__devices")}
            # dispatch for every address
            for g in G:
                penv = dict(new_env); penv["telegram.destination_address"] = G[g]
                pp = m.run("process", penv)
                got = {tuple(t[5:] for t in x.env.get("trace", ()) if t.startswith("PROC:")) for x in pp}
                want = {naive(new_reg, g)}
                if got != want or {x.end_kind for x in pp} != {"exit"}:
                    failures.setdefault("dispatch", f"after {label}: telegram to {g} processed by {sorted(got)}; naive scan of the registration list gives {sorted(want)}")
            key = (repr(new_env["self.__index"]), repr(new_env["self.__devices"]))
            if (key, depth) in seen_states:
                continue
            seen_states.add((key, depth))
            explore(new_env, new_reg, depth - 1, hist + ((kind, d),))

    explore({"self.__index": ADict(()), "self.__devices": AList(())}, (), 4, ())
    chk.count("operations_evaluated", histories)
    chk.count("distinct_registry_states", len(seen_states))
    for kind in ("misuse", "legal-op-raises", "nondeterministic", "dispatch"):
        chk.ob(f"registry-{kind}", m.fn["async_add"].site(), kind not in failures, failures.get(kind, f"no {kind} problem in any history of <= 4 operations over 3 devices"), key=f"registry|{kind}")
    # individual-address telegrams are not dispatched
    pp = m.run("process", {"self.__index": ADict(()), "self.__devices": AList(()), "telegram.destination_address": Obj("IndividualAddress", "ia")})
    chk.ob("registry-dispatch-kind", m.fn["process"].site(), all(not x.env.get("trace") and x.end_kind == "exit" for x in pp), "telegrams to individual addresses reach no device", key="registry|individual")
    chk.rule("E5 census of registry mutations; E4 guard dominance; abstract evaluation of add/remove/process over abstract list/dict values for all histories of <= 4 operations vs the naive scan")
    chk.assume("a device's group_addresses() is fixed after creation (as the code comments state) and hashable/equal by value")
    # dispatch walks a snapshot: Device.process runs device callbacks (after_update -> device_updated_cbs), and those
    # may add or remove devices - on the live index list that shifts the iteration: a registered device is skipped or a
    # re-added one processed twice
    from .common_rules import is_snapshot_of
    pr = repo.func(M, "Devices.process")
    loops = [n for n in walk_local(pr.node) if isinstance(n, ast.For) and any(isinstance(c, ast.Call) and call_name(c) == "self.devices_by_group_address" for c in ast.walk(n.iter))]
    ym, yexpr, _ = _yield_from_expr(repo)
    snap = is_snapshot_of(yexpr) or (len(loops) == 1 and is_snapshot_of(loops[0].iter))
    chk.ob("dispatch-walks-a-snapshot-of-the-registry", ym.site(), len(loops) == 1 and snap, f"Devices.process iterates `{ast.unparse(loops[0].iter) if loops else '?'}`, which yields from `{ast.unparse(yexpr)}`" + ("" if snap else " - the live list that async_add / async_remove (callable from a device callback during dispatch) mutate"), key="snapshot|process")
