"""Typed layer: static types of expressions from mypy (used as a library in a helper process).

The repository's own dev environment ships mypy; it is run once per tree digest with
`preserve_asts, export_types, incremental=False, cache_dir=os.devnull` and the (position -> type string)
table of every module is cached under /verif/.cache (git-ignored; rebuilt when absent).  Nothing of xknx is
executed: mypy parses and type-checks the sources.
"""

from __future__ import annotations

import ast
import hashlib
import json
import os
import subprocess
import sys
from pathlib import Path

from .loader import AnalysisError, Repo

CACHE = Path(__file__).resolve().parent.parent / ".cache"

_HELPER = r'''
import json, os, sys
root, out = sys.argv[1], sys.argv[2]
os.chdir(root)
from mypy import build
from mypy.options import Options
from mypy.find_sources import create_source_list
from mypy.nodes import Node, Expression
opts = Options(); opts.preserve_asts = True; opts.export_types = True; opts.incremental = False; opts.cache_dir = os.devnull
res = build.build(create_source_list(["xknx"], opts), opts)
SKIP = {"node", "info", "type", "original_def", "type_annotation", "unanalyzed_type"}
def walk(root):
    seen = set(); stack = [root]
    while stack:
        n = stack.pop()
        if id(n) in seen: continue
        seen.add(id(n)); yield n
        for name in dir(type(n)):
            if name.startswith("_") or name in SKIP: continue
            try: v = getattr(n, name)
            except Exception: continue
            if isinstance(v, Node): stack.append(v)
            elif isinstance(v, (list, tuple)):
                for x in v:
                    if isinstance(x, Node): stack.append(x)
                    elif isinstance(x, (list, tuple)):
                        for y in x:
                            if isinstance(y, Node): stack.append(y)
tabs = {}
for modname, f in res.files.items():
    if not (modname == "xknx" or modname.startswith("xknx.")): continue
    tab = {}
    for n in walk(f):
        if isinstance(n, Expression):
            t = res.types.get(n)
            if t is not None:
                tab[f"{n.line},{n.column},{n.end_line},{n.end_column}"] = str(t)
    tabs[modname] = tab
json.dump({"errors": len(res.errors), "modules": tabs}, open(out, "w"))
sys.stdout.flush(); os._exit(0)
'''


def tree_digest(repo: Repo) -> str:
    h = hashlib.sha256()
    for name in sorted(repo.modules):
        m = repo.modules[name]
        h.update(name.encode()); h.update(b"\0"); h.update(m.source.encode()); h.update(b"\0")
    return h.hexdigest()[:24]


class TypeTable:
    def __init__(self, repo: Repo) -> None:
        self.repo = repo
        digest = tree_digest(repo)
        CACHE.mkdir(exist_ok=True)
        path = CACHE / f"types_{digest}.json"
        data = None
        for _attempt in range(3):
            if not path.exists():
                tmp = path.with_suffix(f".{os.getpid()}.tmp")
                r = subprocess.run(["/venv/bin/python", "-c", _HELPER, str(repo.root), str(tmp)], capture_output=True, text=True)
                if r.returncode != 0 or not tmp.exists():
                    raise AnalysisError(f"mypy type extraction failed: {r.stderr[-400:]}")
                os.replace(tmp, path)
                self._evict(path)
            try:
                data = json.loads(path.read_text())
                break
            except (FileNotFoundError, json.JSONDecodeError):
                # another process evicted (or is replacing) the table between the test and the read: build it again
                continue
        if data is None:
            raise AnalysisError("type table cache could not be read (concurrent eviction)")
        self.errors = data["errors"]
        self.tabs: dict[str, dict[str, str]] = data["modules"]
        self.n_types = sum(len(t) for t in self.tabs.values())

    @staticmethod
    def _evict(keep: Path) -> None:
        """keep the cache small without pulling a table from under a concurrent run: only tables that have not been
        touched for a while go, and a file that vanishes meanwhile is somebody else's eviction"""
        import time
        now = time.time()
        entries = []
        for p in CACHE.glob("types_*.json"):
            try:
                entries.append((p.stat().st_mtime, p))
            except OSError:
                continue
        entries.sort()
        for mtime, p in entries[:-24]:
            if p != keep and now - mtime > 1800:
                try:
                    p.unlink()
                except OSError:
                    pass

    def type_of(self, modname: str, node: ast.AST) -> str | None:
        tab = self.tabs.get(modname)
        if tab is None:
            return None
        key = f"{getattr(node, 'lineno', -1)},{getattr(node, 'col_offset', -1)},{getattr(node, 'end_lineno', -1)},{getattr(node, 'end_col_offset', -1)}"
        return tab.get(key)
