"""Abstract path enumeration over a CFG.

The client supplies an abstract transfer function for the few statement kinds it
models (over *abstract* values: outcome classes, symbolic counters, orderings);
every other node falls through on its normal edges.  Paths are enumerated from a
start node until a stop node, with `for ... in range(K)` loops unrolled by their
folded constant bound.  Nothing of the repository is executed: the explorer
walks CFG edges and asks the client which abstract branch outcomes are possible.
"""

from __future__ import annotations

import ast
from dataclasses import dataclass
from typing import Any, Callable, Iterable

from .cfg import CFG, Node
from .loader import AnalysisError, Repo

Env = dict[str, Any]


@dataclass
class Path:
    end: int  # node id where the path stopped
    end_kind: str
    env: Env
    nodes: tuple[int, ...]


class Explorer:
    def __init__(
        self,
        cfg: CFG,
        repo: Repo | None = None,
        step: Callable[[Node, Env], list[tuple[str, Env]] | None] | None = None,
        range_bound: Callable[[ast.AST], int | None] | None = None,
        max_steps: int = 400,
        max_paths: int = 20000,
    ) -> None:
        self.cfg = cfg
        self.repo = repo
        self.step = step
        self.range_bound = range_bound
        self.max_steps = max_steps
        self.max_paths = max_paths

    def exc_target(self, node: Node, exc_name: str, is_subclass: Callable[[str, str], bool]) -> int:
        """Which 'exc' successor receives an exception of class `exc_name` raised at `node`."""
        outer = None
        for t, lab in node.succ:
            if lab != "exc":
                continue
            tn = self.cfg.nodes[t]
            if tn.kind == "handler":
                ty = tn.ast.type  # type: ignore[union-attr]
                names = [] if ty is None else [ast.unparse(x) for x in (ty.elts if isinstance(ty, ast.Tuple) else [ty])]
                if ty is None or any(is_subclass(exc_name, n.split(".")[-1]) for n in names):
                    return t
            else:
                outer = t
        if outer is None:
            raise AnalysisError(f"no exceptional successor for {exc_name} at line {node.lineno}")
        return outer

    def run(self, start: int, stops: Iterable[int], env: Env | None = None, stop_at_start_revisit: bool = True) -> list[Path]:
        stops_s = set(stops) | {self.cfg.exit, self.cfg.raise_exit}
        out: list[Path] = []
        stack: list[tuple[int, Env, tuple[int, ...], bool]] = [(start, dict(env or {}), (), True)]
        while stack:
            nid, e, trail, first = stack.pop()
            if len(out) > self.max_paths:
                raise AnalysisError("path explosion in explorer")
            if len(trail) > self.max_steps:
                raise AnalysisError(f"path longer than {self.max_steps} steps (unbounded loop?) in explorer")
            node = self.cfg.nodes[nid]
            if not first and nid in stops_s:
                out.append(Path(nid, node.kind, e, trail + (nid,)))
                continue
            trail2 = trail + (nid,)
            nexts: list[tuple[int, Env]] = []
            handled = None
            if self.step is not None:
                handled = self.step(node, e)
            if handled is not None:
                for lab, e2 in handled:
                    if lab.startswith("goto:"):
                        nexts.append((int(lab[5:]), e2))
                        continue
                    tg = [t for t, l in node.succ if l == lab]
                    if not tg:
                        raise AnalysisError(f"explorer: node at line {node.lineno} has no '{lab}' edge")
                    for t in tg:
                        nexts.append((t, e2))
            elif node.kind == "for":
                k = self.range_bound(node.ast) if self.range_bound and node.ast is not None else None
                key = f"#for{nid}"
                if k is None:
                    # unknown bound: zero-or-more, explored as 0 and 1 iteration
                    cnt = e.get(key, 0)
                    if cnt < 1:
                        e2 = dict(e); e2[key] = cnt + 1
                        nexts += [(t, e2) for t, l in node.succ if l == "iter"]
                    e3 = dict(e); e3.pop(key, None)
                    nexts += [(t, e3) for t, l in node.succ if l == "done"]
                else:
                    cnt = e.get(key, 0)
                    if cnt < k:
                        e2 = dict(e); e2[key] = cnt + 1
                        nexts += [(t, e2) for t, l in node.succ if l == "iter"]
                    else:
                        e3 = dict(e); e3.pop(key, None)
                        nexts += [(t, e3) for t, l in node.succ if l == "done"]
            else:
                for t, l in node.succ:
                    if l == "exc":
                        continue
                    nexts.append((t, e))
            for t, e2 in nexts:
                # leaving a for-loop (break / return / exception / continue of an outer loop) drops its unroll counter
                stale = [k for k in e2 if k.startswith("#for") and int(k[4:]) != t and not self._loop_encloses(int(k[4:]), t)]
                if stale:
                    stale += ["#iter" + k[4:] for k in stale]
                    e2 = {k: v for k, v in e2.items() if k not in stale}
                stack.append((t, e2, trail2, False))
        return out

    def _loop_encloses(self, for_node: int, target: int) -> bool:
        f = self.cfg.nodes[for_node].ast
        return f in self.cfg.nodes[target].loops


def const_range_bound(repo: Repo, mod, cls=None) -> Callable[[ast.AST], int | None]:
    from .loader import NOFOLD

    def rb(for_ast: ast.AST) -> int | None:
        it = for_ast.iter  # type: ignore[attr-defined]
        if isinstance(it, ast.Call) and isinstance(it.func, ast.Name) and it.func.id == "range":
            vals = [repo.fold(a, mod, cls) for a in it.args]
            if any(v is NOFOLD or not isinstance(v, int) for v in vals):
                return None
            return len(range(*vals))
        return None

    return rb
