"""Abstract transfer functions for the path explorer.

Values: Python constants, tuples thereof, `UNKNOWN`, opaque `Sym(name)` (equal only
to itself), and `SymInt(base, off, mod)` = (base + off) mod `mod` for a symbolic
base already known to lie in [0, mod) — enough to decide the modular
successor / predecessor comparisons the protocol counters use.

Calls are *not* executed: a client `call_model` maps selected call sites to a
finite list of abstract outcomes (value or raised exception class, plus an event
appended to the path trace).  Every other call evaluates to UNKNOWN, and a test
over UNKNOWN forks both ways.
"""

from __future__ import annotations

import ast
from dataclasses import dataclass
from itertools import product
from typing import Any, Callable

from . import bits as B
from .astx import walk_local
from .cfg import CFG, Node
from .exctable import ExcTable
from .explore import Env
from .loader import AnalysisError


class _Unknown:
    def __repr__(self) -> str:
        return "UNKNOWN"


UNKNOWN = _Unknown()


@dataclass(frozen=True)
class Sym:
    name: str

    def __repr__(self) -> str:
        return f"<{self.name}>"


@dataclass(frozen=True)
class SymInt:
    base: str
    off: int = 0
    mod: int | None = None

    def __repr__(self) -> str:
        s = self.base if not self.off else f"{self.base}{self.off:+d}"
        return f"<{s} mod {self.mod}>" if self.mod else f"<{s}>"


@dataclass(frozen=True)
class _Unred:
    """(base+off mod m) + k, not yet reduced."""

    inner: SymInt
    k: int


def _unreduced(s: SymInt, k: int) -> Any:
    if k == 0:
        return s
    return _Unred(s, k)


@dataclass(frozen=True)
class Obj:
    """Abstract object: class name (for isinstance through the class table), identity tag, known fields."""

    cls: str
    tag: str = ""
    fields: tuple[tuple[str, Any], ...] = ()

    def get(self, attr: str) -> Any:
        for k, v in self.fields:
            if k == attr:
                return v
        return UNKNOWN

    def __repr__(self) -> str:
        return f"<{self.cls}{':' + self.tag if self.tag else ''}>"


@dataclass(frozen=True)
class AList:
    """Abstract list value (immutable; mutation rebinds the environment entry)."""

    items: tuple = ()

    def __repr__(self) -> str:
        return "[" + ", ".join(map(repr, self.items)) + "]"


@dataclass(frozen=True)
class ADict:
    items: tuple = ()  # ((key, value), ...) in insertion order

    def get(self, k: Any, default: Any = None) -> Any:
        for kk, v in self.items:
            if sym_eq(kk, k) is True:
                return v
        return default

    def has(self, k: Any) -> bool:
        return any(sym_eq(kk, k) is True for kk, _ in self.items)

    def set(self, k: Any, v: Any) -> "ADict":
        if self.has(k):
            return ADict(tuple((kk, v if sym_eq(kk, k) is True else vv) for kk, vv in self.items))
        return ADict(self.items + ((k, v),))

    def drop(self, k: Any) -> "ADict":
        return ADict(tuple((kk, vv) for kk, vv in self.items if sym_eq(kk, k) is not True))

    def __repr__(self) -> str:
        return "{" + ", ".join(f"{k!r}: {v!r}" for k, v in self.items) + "}"


@dataclass(frozen=True)
class Ref:
    """Reference to a list stored inside an abstract dict: (environment key of the dict, dict key)."""

    env_key: str
    key: Any


@dataclass(frozen=True)
class Raise:
    exc: str


@dataclass(frozen=True)
class Outcome:
    event: str | None
    value: Any  # value or Raise


def truth(v: Any) -> bool | None:
    if v is UNKNOWN or isinstance(v, (SymInt, _Unred)):
        return None
    if isinstance(v, Obj):
        return True
    if isinstance(v, (AList, ADict)):
        return bool(v.items)
    if isinstance(v, (B.BitRec, B.SymBits)):
        return B.truth(v)
    if isinstance(v, Sym):
        return True if v.name.startswith("obj:") else None
    try:
        return bool(v)
    except Exception:  # noqa: BLE001
        return None


def _mask_to_mod(mask: int) -> int | None:
    m = mask + 1
    return m if m > 0 and (m & (m - 1)) == 0 else None


def sym_eq(a: Any, b: Any) -> bool | None:
    if a is UNKNOWN or b is UNKNOWN:
        return None
    if isinstance(a, _Unred) or isinstance(b, _Unred):
        return None
    if isinstance(a, (B.BitRec, B.SymBits)) or isinstance(b, (B.BitRec, B.SymBits)):
        if isinstance(a, (B.BitRec, B.SymBits, int)) and isinstance(b, (B.BitRec, B.SymBits, int)):
            return B.eq(a, b)
        if a is None or b is None:
            return False
        return None
    if isinstance(a, Obj) or isinstance(b, Obj):
        if isinstance(a, Obj) and isinstance(b, Obj):
            return (a.cls, a.tag) == (b.cls, b.tag)
        other = b if isinstance(a, Obj) else a
        if other is None or isinstance(other, (bool, int, str, bytes, float, tuple)):
            return False
        return None
    if isinstance(a, SymInt) and isinstance(b, SymInt):
        if a.base == b.base and a.mod == b.mod:
            if a.mod:
                return (a.off - b.off) % a.mod == 0
            return a.off == b.off
        return None
    if isinstance(a, SymInt) or isinstance(b, SymInt):
        return None
    if isinstance(a, Sym) or isinstance(b, Sym):
        if isinstance(a, Sym) and isinstance(b, Sym):
            return True if a == b else (False if a.name.startswith("obj:") and b.name.startswith("obj:") else None)
        other = b if isinstance(a, Sym) else a
        s = a if isinstance(a, Sym) else b
        if other is None and s.name.startswith("obj:"):
            return False
        return None
    try:
        return a == b
    except Exception:  # noqa: BLE001
        return None


class AbsMachine:
    def __init__(
        self,
        cfg: CFG,
        exc: ExcTable,
        call_model: Callable[[ast.Call, Env], list[Outcome] | None],
        name_hook: Callable[[ast.AST, Env], Any] | None = None,
        stmt_hook: Callable[[Node, Env], None] | None = None,
    ) -> None:
        self.cfg = cfg
        self.exc = exc
        self.call_model = call_model
        self.name_hook = name_hook
        self.stmt_hook = stmt_hook
        self.isinstance_fn: Callable[[str, str], bool | None] | None = None
        self.enum_classes: set[str] = set()
        self.cur_chosen: dict[int, Any] = {}

    # ---------------------------------------------------------- evaluation
    def ev(self, e: ast.AST, env: Env, chosen: dict[int, Any]) -> Any:
        if isinstance(e, ast.Constant):
            return e.value
        if isinstance(e, ast.Await):
            return self.ev(e.value, env, chosen)
        if isinstance(e, ast.NamedExpr):
            v = self.ev(e.value, env, chosen)
            env[ast.unparse(e.target)] = v
            return v
        if isinstance(e, (ast.Name, ast.Attribute)):
            key = ast.unparse(e)
            if key in env:
                return env[key]
            if self.name_hook is not None:
                v = self.name_hook(e, env)
                if v is not UNKNOWN:
                    return v
            if isinstance(e, ast.Attribute):
                base = self.ev(e.value, env, chosen)
                if isinstance(base, dict) and e.attr in base:
                    return base[e.attr]
                if isinstance(base, Obj):
                    return base.get(e.attr)
            return UNKNOWN
        if isinstance(e, ast.Tuple):
            return tuple(self.ev(x, env, chosen) for x in e.elts)
        if isinstance(e, ast.List):
            return AList(tuple(self.ev(x, env, chosen) for x in e.elts))
        if isinstance(e, ast.Dict) and all(k is not None for k in e.keys):
            return ADict(tuple((self.ev(k, env, chosen), self.ev(v, env, chosen)) for k, v in zip(e.keys, e.values)))
        if isinstance(e, ast.Call):
            if id(e) in chosen:
                return chosen[id(e)]
            if id(e) in self.cur_chosen:
                return self.cur_chosen[id(e)]
            r = self._container_call(e, env, chosen)
            if r is not NotImplemented:
                return r
            if self.enum_classes and isinstance(e.func, ast.Name) and e.func.id in self.enum_classes and len(e.args) == 1 and not e.keywords:
                return self.ev(e.args[0], env, chosen)  # Enum(v): transparent on the member set (totality is checked separately)
            if isinstance(e.func, ast.Name) and e.func.id == "len" and len(e.args) == 1:
                v = self._deref(self.ev(e.args[0], env, chosen), env)
                if isinstance(v, (AList, ADict)):
                    return len(v.items)
                if isinstance(v, (tuple, bytes, bytearray, str)):
                    return len(v)
                return UNKNOWN
            if isinstance(e.func, ast.Name) and e.func.id in ("bytes", "bytearray") and len(e.args) == 1 and not e.keywords:
                v = self._deref(self.ev(e.args[0], env, chosen), env)
                items = v.items if isinstance(v, AList) else v
                if isinstance(items, (tuple, bytes)) and all(isinstance(x, int) and not isinstance(x, bool) and 0 <= x <= 255 for x in items):
                    return bytes(items)
                return UNKNOWN
            if isinstance(e.func, ast.Name) and e.func.id in ("list", "tuple", "set") and len(e.args) <= 1:
                if not e.args:
                    return AList(()) if e.func.id != "tuple" else ()
                v = self._deref(self.ev(e.args[0], env, chosen), env)
                if isinstance(v, AList):
                    return AList(v.items) if e.func.id == "list" else tuple(v.items)
                if isinstance(v, tuple):
                    return AList(v) if e.func.id == "list" else v
                return UNKNOWN
            if isinstance(e.func, ast.Name) and e.func.id == "isinstance" and len(e.args) == 2:
                v = self.ev(e.args[0], env, chosen)
                def _flat(t: ast.AST) -> list[ast.AST]:
                    if isinstance(t, ast.Tuple):
                        return [y for x in t.elts for y in _flat(x)]
                    if isinstance(t, ast.BinOp) and isinstance(t.op, ast.BitOr):  # PEP 604 union
                        return _flat(t.left) + _flat(t.right)
                    return [t]

                tys = _flat(e.args[1])
                if isinstance(v, Obj) and self.isinstance_fn is not None:
                    res = [self.isinstance_fn(v.cls, ast.unparse(t)) for t in tys]
                    if any(r is True for r in res):
                        return True
                    if all(r is False for r in res):
                        return False
                    return UNKNOWN
                if v is None:
                    return False
                return UNKNOWN
            if isinstance(e.func, ast.Name) and e.func.id == "bool" and len(e.args) == 1:
                v0 = self.ev(e.args[0], env, chosen)
                fs = B.to_fields(v0) if isinstance(v0, (B.BitRec, B.SymBits)) else None
                if fs is not None and len(fs) == 1 and fs[0][1] == 1 and isinstance(fs[0][2], B.SymBits):
                    return fs[0][2]  # bool(one symbolic bit) is that bit as 0/1
                t = truth(v0)
                return UNKNOWN if t is None else t
            if isinstance(e.func, ast.Attribute) and e.func.attr == "to_bytes" and e.args:
                # n.to_bytes(k, 'big'): transparent for the bit-record view (the k octets of n)
                return self.ev(e.func.value, env, chosen)
            for a in e.args:
                self.ev(a, env, chosen)
            return UNKNOWN
        if isinstance(e, ast.UnaryOp):
            v = self.ev(e.operand, env, chosen)
            if isinstance(e.op, ast.Not):
                fs = B.to_fields(v) if isinstance(v, (B.BitRec, B.SymBits)) else None
                if fs is not None and len(fs) == 1 and fs[0][1] == 1 and isinstance(fs[0][2], B.SymBits):
                    return fs[0][2].negated()  # `not (x & single_bit_mask)` is the complemented bit (as 0/1)
                t = truth(self._deref(v, env))
                return UNKNOWN if t is None else (not t)
            if isinstance(e.op, ast.USub) and isinstance(v, (int, float)):
                return -v
            return UNKNOWN
        if isinstance(e, ast.BoolOp):
            res: Any = None
            for x in e.values:
                res = self.ev(x, env, chosen)
                t = truth(res)
                if t is None:
                    return UNKNOWN
                if isinstance(e.op, ast.And) and not t:
                    return res
                if isinstance(e.op, ast.Or) and t:
                    return res
            return res
        if isinstance(e, ast.IfExp):
            tv = self.ev(e.test, env, chosen)
            t = truth(tv)
            if t is None and isinstance(tv, B.SymBits) and tv.width == 1:
                a, b = self.ev(e.body, env, chosen), self.ev(e.orelse, env, chosen)
                if isinstance(a, int) and isinstance(b, int) and not isinstance(a, bool) and not isinstance(b, bool) and (a == 0) != (b == 0):
                    m = a | b
                    if m > 0 and m & (m - 1) == 0:
                        pos = m.bit_length() - 1
                        return B.norm([(pos, 1, tv if a else tv.negated())])
                return UNKNOWN
            if t is None:
                return UNKNOWN
            return self.ev(e.body if t else e.orelse, env, chosen)
        if isinstance(e, ast.Compare):
            left = self.ev(e.left, env, chosen)
            result: Any = True
            for op, comp in zip(e.ops, e.comparators):
                right = self._deref(self.ev(comp, env, chosen), env)
                r = self._cmp(op, left, right)
                if r is None:
                    return UNKNOWN
                if not r:
                    return False
                left = right
            return result
        if isinstance(e, ast.BinOp):
            a = self.ev(e.left, env, chosen)
            b = self.ev(e.right, env, chosen)
            return self._binop(e.op, a, b)
        if isinstance(e, ast.Subscript):
            base = self.ev(e.value, env, chosen)
            if isinstance(e.slice, ast.Slice):
                if isinstance(base, (tuple, bytes, str)):
                    parts = [None if x is None else self.ev(x, env, chosen) for x in (e.slice.lower, e.slice.upper, e.slice.step)]
                    if all(x is None or (isinstance(x, int) and not isinstance(x, bool)) for x in parts) and parts[2] != 0:
                        return base[parts[0]:parts[1]:parts[2]]
                return UNKNOWN
            idx = self.ev(e.slice, env, chosen)
            if isinstance(base, (tuple, bytes)) and isinstance(idx, int) and not isinstance(idx, bool):
                if -len(base) <= idx < len(base):
                    return base[idx]
                env["#pending_raise"] = "IndexError"
                return UNKNOWN
            if isinstance(base, ADict):
                if base.has(idx):
                    v = base.get(idx)
                    return Ref(ast.unparse(e.value), idx) if isinstance(v, AList) else v
                env["#pending_raise"] = "KeyError"
                return UNKNOWN
            basev = self._deref(base, env)
            if isinstance(basev, AList) and isinstance(idx, int) and -len(basev.items) <= idx < len(basev.items):
                return basev.items[idx]
            return UNKNOWN
        return UNKNOWN

    @staticmethod
    def _cmp(op: ast.cmpop, a: Any, b: Any) -> bool | None:
        if isinstance(op, (ast.Eq, ast.Is)):
            return sym_eq(a, b)
        if isinstance(op, (ast.NotEq, ast.IsNot)):
            r = sym_eq(a, b)
            return None if r is None else not r
        if isinstance(a, (B.SymBits, B.BitRec)) and isinstance(b, int) and not isinstance(b, bool) and isinstance(op, (ast.Lt, ast.LtE, ast.Gt, ast.GtE)):
            lo, hi = B.bounds(a)  # type: ignore[misc]
            if isinstance(op, ast.Lt):
                return True if hi < b else (False if lo >= b else None)
            if isinstance(op, ast.LtE):
                return True if hi <= b else (False if lo > b else None)
            if isinstance(op, ast.Gt):
                return True if lo > b else (False if hi <= b else None)
            if isinstance(op, ast.GtE):
                return True if lo >= b else (False if hi < b else None)
        if isinstance(b, (B.SymBits, B.BitRec)) and isinstance(a, int) and not isinstance(a, bool) and isinstance(op, (ast.Lt, ast.LtE, ast.Gt, ast.GtE)):
            flip = {ast.Lt: ast.Gt(), ast.LtE: ast.GtE(), ast.Gt: ast.Lt(), ast.GtE: ast.LtE()}[type(op)]
            return AbsMachine._cmp(flip, b, a)
        if isinstance(op, (ast.In, ast.NotIn)) and isinstance(b, AList):
            b = b.items
        if isinstance(op, (ast.In, ast.NotIn)) and isinstance(b, ADict):
            b = tuple(k for k, _ in b.items)
        if isinstance(op, (ast.In, ast.NotIn)) and isinstance(b, (tuple, list, frozenset, set)):
            res = [sym_eq(a, x) for x in b]
            r = True if any(x is True for x in res) else (None if any(x is None for x in res) else False)
            if r is None:
                return None
            return r if isinstance(op, ast.In) else not r
        if isinstance(a, SymInt) and isinstance(b, SymInt) and a.base == b.base and a.mod is None and b.mod is None:
            a, b = a.off, b.off  # same unbounded symbolic base: ordering of the offsets
        if any(x is UNKNOWN or isinstance(x, (Sym, SymInt, _Unred, Obj, B.BitRec, B.SymBits)) for x in (a, b)):
            return None
        try:
            if isinstance(op, ast.Lt):
                return a < b
            if isinstance(op, ast.LtE):
                return a <= b
            if isinstance(op, ast.Gt):
                return a > b
            if isinstance(op, ast.GtE):
                return a >= b
            if isinstance(op, ast.In):
                return a in b
            if isinstance(op, ast.NotIn):
                return a not in b
        except Exception:  # noqa: BLE001
            return None
        return None

    @staticmethod
    def _binop(op: ast.operator, a: Any, b: Any) -> Any:
        if a is UNKNOWN or b is UNKNOWN:
            return UNKNOWN
        if isinstance(a, (B.BitRec, B.SymBits)) or isinstance(b, (B.BitRec, B.SymBits)):
            r = None
            if isinstance(op, ast.BitAnd):
                if isinstance(b, int) and not isinstance(b, bool):
                    r = B.band(a, b)
                elif isinstance(a, int) and not isinstance(a, bool):
                    r = B.band(b, a)
            elif isinstance(op, ast.RShift) and isinstance(b, int):
                r = B.shr(a, b)
            elif isinstance(op, ast.LShift) and isinstance(b, int):
                r = B.shl(a, b)
            elif isinstance(op, ast.BitOr):
                r = B.bor(a, b)
            elif isinstance(op, ast.Add):
                r = B.add(a, b)
            return UNKNOWN if r is None else r
        if isinstance(a, (SymInt, _Unred)) and isinstance(b, int):
            if isinstance(op, (ast.Add, ast.Sub)):
                k = b if isinstance(op, ast.Add) else -b
                if isinstance(a, _Unred):
                    return _unreduced(a.inner, a.k + k)
                if a.mod:
                    return _unreduced(a, k)
                return SymInt(a.base, a.off + k, None)
            if isinstance(op, ast.BitAnd) or isinstance(op, ast.Mod):
                m = _mask_to_mod(b) if isinstance(op, ast.BitAnd) else (b if b > 0 else None)
                if m is None:
                    return UNKNOWN
                if isinstance(a, _Unred):
                    if a.inner.mod and a.inner.mod % m == 0:
                        return SymInt(a.inner.base, (a.inner.off + a.k) % m, m) if a.inner.mod == m else UNKNOWN
                    return UNKNOWN
                if a.mod is None:
                    return UNKNOWN  # base range unknown
                if a.mod == m:
                    return a
                return UNKNOWN
            return UNKNOWN
        if isinstance(a, (Sym, SymInt, _Unred)) or isinstance(b, (Sym, SymInt, _Unred)):
            return UNKNOWN
        try:
            if isinstance(op, ast.Add):
                return a + b
            if isinstance(op, ast.Sub):
                return a - b
            if isinstance(op, ast.Mult):
                return a * b
            if isinstance(op, ast.FloorDiv):
                return a // b
            if isinstance(op, ast.Mod):
                return a % b
            if isinstance(op, ast.BitAnd):
                return a & b
            if isinstance(op, ast.BitOr):
                return a | b
            if isinstance(op, ast.LShift):
                return a << b
            if isinstance(op, ast.RShift):
                return a >> b
            if isinstance(op, ast.Div):
                return a / b
        except Exception:  # noqa: BLE001
            return UNKNOWN
        return UNKNOWN

    # ------------------------------------------------------------ stepping
    def _modelled_calls(self, node: ast.AST, env: Env) -> list[tuple[ast.Call, list[Outcome]]]:
        out = []
        for n in walk_local(node):
            if isinstance(n, ast.Call):
                m = self.call_model(n, env)
                if m is not None:
                    out.append((n, m))
        # evaluation order: innermost/leftmost first ~ source order by position
        out.sort(key=lambda p: (p[0].end_lineno or 0, p[0].end_col_offset or 0))
        return out

    def _bind(self, target: ast.AST, value: Any, env: Env) -> None:
        if isinstance(target, (ast.Tuple, ast.List)):
            if isinstance(value, tuple) and len(value) == len(target.elts):
                for t, v in zip(target.elts, value):
                    self._bind(t, v, env)
            else:
                for t in target.elts:
                    self._bind(t, UNKNOWN, env)
        elif isinstance(target, (ast.Name, ast.Attribute)):
            env[ast.unparse(target)] = value
        elif isinstance(target, ast.Subscript):
            key = ast.unparse(target.value)
            cont = env.get(key)
            if isinstance(cont, ADict):
                k = self.ev(target.slice, env, {})
                env[key] = cont.set(k, value)
                self._event(env, f"SETITEM {key}[{k!r}]")
        elif isinstance(target, ast.Starred):
            self._bind(target.value, UNKNOWN, env)

    @staticmethod
    def _event(env: Env, ev: str) -> None:
        if env.get("#trace_containers"):
            env["trace"] = tuple(env.get("trace", ())) + (ev,)

    # ------------------------------------------------- abstract containers
    def _deref(self, v: Any, env: Env) -> Any:
        if isinstance(v, Ref):
            d = env.get(v.env_key)
            if isinstance(d, ADict):
                return d.get(v.key, UNKNOWN)
            return UNKNOWN
        return v

    def _store_list(self, where: Any, new: "AList", env: Env) -> None:
        if isinstance(where, Ref):
            d = env.get(where.env_key)
            if isinstance(d, ADict):
                env[where.env_key] = d.set(where.key, new)
        elif isinstance(where, str):
            env[where] = new

    def _container_call(self, e: ast.Call, env: Env, chosen: dict[int, Any]) -> Any:
        """Method call on an abstract list/dict; returns NotImplemented when the receiver is not one."""
        f = e.func
        if not isinstance(f, ast.Attribute):
            return NotImplemented
        recv_expr = f.value
        recv = self.ev(recv_expr, env, chosen)
        loc: Any = recv if isinstance(recv, Ref) else ast.unparse(recv_expr)
        val = self._deref(recv, env)
        args = [self.ev(a, env, chosen) for a in e.args]
        m = f.attr
        if isinstance(val, AList):
            if m == "append" and len(args) == 1:
                self._store_list(loc, AList(val.items + (args[0],)), env)
                return None
            if m == "insert" and len(args) == 2 and isinstance(args[0], int):
                it = list(val.items); it.insert(args[0], args[1])
                self._store_list(loc, AList(tuple(it)), env)
                return None
            if m == "extend" and len(args) == 1 and isinstance(self._deref(args[0], env), (AList, tuple)):
                x = self._deref(args[0], env)
                self._store_list(loc, AList(val.items + tuple(x.items if isinstance(x, AList) else x)), env)
                return None
            if m == "remove" and len(args) == 1:
                it = list(val.items)
                for i, x in enumerate(it):
                    if sym_eq(x, args[0]) is True:
                        del it[i]
                        self._store_list(loc, AList(tuple(it)), env)
                        return None
                env["#pending_raise"] = "ValueError"
                return None
            if m == "clear":
                self._store_list(loc, AList(()), env)
                return None
            if m == "add" and len(args) == 1:  # set semantics on the ordered abstract collection
                if not any(sym_eq(x, args[0]) is True for x in val.items):
                    self._store_list(loc, AList(val.items + (args[0],)), env)
                return None
            if m == "discard" and len(args) == 1:
                self._store_list(loc, AList(tuple(x for x in val.items if sym_eq(x, args[0]) is not True)), env)
                return None
            if m == "pop":
                it = list(val.items)
                if not it:
                    env["#pending_raise"] = "IndexError"
                    return None
                i = args[0] if args and isinstance(args[0], int) else -1
                x = it.pop(i)
                self._store_list(loc, AList(tuple(it)), env)
                return x
            if m == "copy":
                return val
            return NotImplemented
        if isinstance(val, ADict) and isinstance(loc, str):
            if m == "get":
                v = val.get(args[0], args[1] if len(args) > 1 else None)
                return Ref(loc, args[0]) if isinstance(v, AList) else v
            if m == "setdefault" and len(args) == 2:
                if not val.has(args[0]):
                    env[loc] = val.set(args[0], args[1])
                    val = env[loc]
                v = val.get(args[0])
                return Ref(loc, args[0]) if isinstance(v, AList) else v
            if m == "pop":
                if val.has(args[0]):
                    v = val.get(args[0])
                    env[loc] = val.drop(args[0])
                    return v
                if len(args) > 1:
                    return args[1]
                env["#pending_raise"] = "KeyError"
                return None
            if m == "clear":
                env[loc] = ADict(())
                return None
            if m == "values":
                return tuple(v for _, v in val.items)
            if m == "keys":
                return tuple(k for k, _ in val.items)
            if m == "items":
                return tuple((k, v) for k, v in val.items)
            if m == "copy":
                return val
            return NotImplemented
        return NotImplemented

    def step(self, node: Node, env: Env) -> list[tuple[str, Env]] | None:
        a = node.ast
        if node.kind == "join" and node.succ and all(l == "exc" for _, l in node.succ) and "#raised" in env:
            return [(f"goto:{self._exc_target(node, env['#raised'])}", env)]
        if node.kind == "handler" and a is not None:
            e2 = dict(env)
            e2["#handling"] = e2.pop("#raised", "Exception")
            if getattr(a, "name", None):
                e2[a.name] = Sym("exc:" + e2["#handling"])  # type: ignore[attr-defined]
            return [("next", e2)]
        if node.kind == "for" and a is not None:
            chosen_it: dict[int, Any] = {}
            if f"#for{node.id}" not in env:
                for call, outs in self._modelled_calls(a.iter, env):  # type: ignore[attr-defined]
                    if len(outs) == 1 and not isinstance(outs[0].value, Raise):
                        chosen_it[id(call)] = outs[0].value
                it = self._deref(self.ev(a.iter, dict(env), chosen_it), env)  # type: ignore[attr-defined]
                if isinstance(it, AList):
                    it = it.items
                if isinstance(it, tuple):
                    env = dict(env)
                    env[f"#iter{node.id}"] = it  # the iterable is evaluated once, on loop entry
            it = env.get(f"#iter{node.id}", UNKNOWN)
            if isinstance(it, AList):
                it = it.items
            if isinstance(it, tuple):
                key = f"#for{node.id}"
                i = env.get(key, 0)
                if i < len(it):
                    e2 = dict(env)
                    e2[key] = i + 1
                    self._bind(a.target, it[i], e2)  # type: ignore[attr-defined]
                    return [("iter", e2)]
                e3 = dict(env)
                e3.pop(key, None)
                e3.pop(f"#iter{node.id}", None)
                return [("done", e3)]
            return None
        if a is None or node.kind in ("join", "entry", "exit", "raise", "for", "with_exit"):
            return None
        what: ast.AST = a
        if node.kind == "with":
            what = ast.Tuple(elts=[i.context_expr for i in a.items], ctx=ast.Load())  # type: ignore[attr-defined]
        # modelled calls are resolved sequentially in evaluation order (inner / leftmost first), so that the model
        # of an outer call sees the chosen values of the calls nested in its arguments (self.cur_chosen)
        call_nodes = sorted((n for n in walk_local(what) if isinstance(n, ast.Call)), key=lambda c: (c.end_lineno or 0, c.end_col_offset or 0))
        states: list[tuple[Env, dict[int, Any], str | None]] = [(dict(env), {}, None)]
        for call in call_nodes:
            nxt: list[tuple[Env, dict[int, Any], str | None]] = []
            for e_, ch_, raised_ in states:
                if raised_ is not None:
                    nxt.append((e_, ch_, raised_))
                    continue
                self.cur_chosen = ch_
                outs = self.call_model(call, e_)
                if outs is None:
                    nxt.append((e_, ch_, None))
                    continue
                for oc in outs:
                    e3 = dict(e_)
                    ch3 = dict(ch_)
                    if oc.event:
                        e3["trace"] = tuple(e3.get("trace", ())) + (oc.event,)
                    if isinstance(oc.value, Raise):
                        e3["#raised"] = oc.value.exc
                        nxt.append((e3, ch3, oc.value.exc))
                    else:
                        ch3[id(call)] = oc.value
                        nxt.append((e3, ch3, None))
            states = nxt
        self.cur_chosen = {}
        results: list[tuple[str, Env]] = []
        for e2, chosen, raised in states:
            self.cur_chosen = chosen
            if raised is not None:
                results.append((f"goto:{self._exc_target(node, raised)}", e2))
                continue
            if self.stmt_hook is not None:
                self.stmt_hook(node, e2)
            if node.kind == "test":
                t = truth(self._deref(self.ev(a, e2, chosen), e2))
                if "#pending_raise" in e2:
                    exn = e2.pop("#pending_raise"); e2["#raised"] = exn
                    results.append((f"goto:{self._exc_target(node, exn)}", e2))
                    continue
                if t is None:
                    results.append(("true", dict(e2)))
                    results.append(("false", dict(e2)))
                else:
                    results.append(("true" if t else "false", e2))
                continue
            if node.kind == "with":
                vals = self.ev(what, e2, chosen)
                # `with <ctx> as name`: the name refers to what the (modelled) context expression gave — an abstract
                # object stands for "the thing entered"; anything else stays unknown
                for i_, item in enumerate(a.items):  # type: ignore[attr-defined]
                    if item.optional_vars is not None:
                        v_ = vals[i_] if isinstance(vals, tuple) and i_ < len(vals) else UNKNOWN
                        self._bind(item.optional_vars, v_ if isinstance(v_, Obj) else UNKNOWN, e2)
                results.append(("next", e2))
                continue
            # stmt
            if isinstance(a, ast.Assign):
                v = self.ev(a.value, e2, chosen)
                for t in a.targets:
                    self._bind(t, v, e2)
            elif isinstance(a, ast.AnnAssign):
                if a.value is not None:
                    self._bind(a.target, self.ev(a.value, e2, chosen), e2)
            elif isinstance(a, ast.AugAssign):
                cur = self.ev(a.target, e2, chosen)
                v = self._binop(a.op, cur, self.ev(a.value, e2, chosen))
                self._bind(a.target, v, e2)
            elif isinstance(a, ast.Expr) and isinstance(a.value, ast.Yield) and e2.get("#trace_yields"):
                v = self.ev(a.value.value, e2, chosen) if a.value.value is not None else None
                e2["trace"] = tuple(e2.get("trace", ())) + (f"YIELD({v!r})",)
            elif isinstance(a, ast.Expr) and isinstance(a.value, ast.YieldFrom) and e2.get("#trace_yields"):
                v = self._deref(self.ev(a.value.value, e2, chosen), e2)
                if isinstance(v, AList):
                    v = v.items
                if isinstance(v, tuple):
                    e2["trace"] = tuple(e2.get("trace", ())) + tuple(f"YIELD({x!r})" for x in v)
                else:
                    e2["trace"] = tuple(e2.get("trace", ())) + ("YIELD_FROM(UNKNOWN)",)
            elif isinstance(a, ast.Expr):
                self.ev(a.value, e2, chosen)
            elif isinstance(a, ast.Return):
                e2["#ret"] = self.ev(a.value, e2, chosen) if a.value is not None else None
                results.append(("return", e2))
                continue
            elif isinstance(a, ast.Raise):
                name = "Exception"
                if a.exc is not None:
                    x = a.exc.func if isinstance(a.exc, ast.Call) else a.exc
                    name = ast.unparse(x).split(".")[-1]
                    if isinstance(a.exc, ast.Name) and a.exc.id in e2 and isinstance(e2[a.exc.id], Raise):
                        name = e2[a.exc.id].exc
                elif "#handling" in e2:
                    name = e2["#handling"]
                e2["#raised"] = name
                tr2 = list(e2.get("trace", ()))
                tr2.append(f"raise:{name}")
                e2["trace"] = tuple(tr2)
                results.append((f"goto:{self._exc_target(node, name)}", e2))
                continue
            elif isinstance(a, (ast.Break,)):
                results.append(("break", e2))
                continue
            elif isinstance(a, ast.Continue):
                results.append(("continue", e2))
                continue
            elif isinstance(a, ast.Delete):
                for t in a.targets:
                    if isinstance(t, ast.Subscript):
                        key = ast.unparse(t.value)
                        cont = e2.get(key)
                        if isinstance(cont, ADict):
                            k = self.ev(t.slice, e2, chosen)
                            if cont.has(k):
                                e2[key] = cont.drop(k)
                            else:
                                e2["#pending_raise"] = "KeyError"
            elif isinstance(a, (ast.Pass, ast.FunctionDef, ast.AsyncFunctionDef, ast.ClassDef, ast.Global, ast.Nonlocal, ast.Import, ast.ImportFrom)):
                pass
            else:
                raise AnalysisError(f"absmachine: unsupported statement {type(a).__name__} at line {node.lineno}")
            if "#pending_raise" in e2:
                exn = e2.pop("#pending_raise"); e2["#raised"] = exn
                e2["trace"] = tuple(e2.get("trace", ())) + (f"raise:{exn}",)
                results.append((f"goto:{self._exc_target(node, exn)}", e2))
                continue
            results.append(("next", e2))
        return results

    def _exc_target(self, node: Node, exc_name: str) -> int:
        outer = None
        for t, lab in node.succ:
            if lab != "exc":
                continue
            tn = self.cfg.nodes[t]
            if tn.kind == "handler":
                ty = tn.ast.type  # type: ignore[union-attr]
                names = [] if ty is None else [ast.unparse(x) for x in (ty.elts if isinstance(ty, ast.Tuple) else [ty])]
                if ty is None or any(self.exc.is_subclass(exc_name, n) for n in names):
                    return t
            else:
                outer = t
        if outer is None:
            # a node the CFG thought could not raise: propagate to function raise exit
            return self.cfg.raise_exit
        return outer


def class_isinstance(repo, default_module: str | None = None) -> Callable[[str, str], bool | None]:
    """isinstance over the repo class table by (unique) class name; dotted type names use the last component."""
    by_name: dict[str, list] = {}
    for ci in repo.all_classes():
        by_name.setdefault(ci.name, []).append(ci)

    def fn(cls_name: str, type_name: str) -> bool | None:
        t = type_name.split(".")[-1]
        cs = by_name.get(cls_name)
        if not cs or t not in by_name:
            return None
        names = {c.name for c in repo.mro(cs[0])}
        return t in names

    return fn
