"""E2 — bit-provenance evaluator for the serialisation fragment (readers `from_knx`, writers `to_knx`, length methods).

Nothing of the repository runs: the evaluator walks the *syntax tree* of a codec with abstract values

  BV      an integer as a vector of bit sources, LSB first: 0, 1, Src (input octet k bit j / field f bit j) or TOP,
          optionally continued by an unbounded field tail (two's-complement view of an arbitrary Python int)
  Bytes   a byte string as a sequence of single octets (8-bit BVs) and blobs [lo, hi) of the input / of a bytes field,
          with bounds linear in length symbols
  Lin     a linear integer expression over symbols (input length, field lengths, "value of BV")
  Obj     an abstract object (dataclass / address / payload / enum member) with named fields

and enumerates every path (undecided tests are explored both ways by replaying the function with a decision
prefix).  Guards on lengths and ranges refine the constraint store; `struct.pack` / `bytes([..])` / `to_bytes`
record the range they enforce (refusal otherwise).  The clients (C05 / C06 / C21) compose reader and writer and
compare bit by bit.  A construct outside the fragment raises Unsupported (reported as ANALYSIS-ERROR by the client).
"""

from __future__ import annotations

import ast
import re
import struct as _struct
from dataclasses import dataclass, field
from typing import Any

from .loader import NOFOLD, ClassInfo, EnumMember, FuncInfo, Repo

TOP = "T"
INF = float("inf")


class Unsupported(Exception):
    pass


class AbstractRaise(Exception):
    def __init__(self, exc: str, why: str = "") -> None:
        super().__init__(exc)
        self.exc = exc
        self.why = why


class _Replay(Exception):
    pass


@dataclass(frozen=True)
class Src:
    kind: str  # 'in' | 'f'
    name: Any  # octet index (Lin-free int or (blobname, offset)) | field name
    idx: int

    def __repr__(self) -> str:
        return f"{self.kind}:{self.name}.{self.idx}"


# ----------------------------------------------------------------------------- linear expressions
class Lin:
    __slots__ = ("c", "t")

    def __init__(self, c: int = 0, t: dict | None = None) -> None:
        self.c = c
        self.t = {k: v for k, v in (t or {}).items() if v != 0}

    @staticmethod
    def of(x: Any) -> "Lin":
        if isinstance(x, Lin):
            return x
        if isinstance(x, bool):
            return Lin(int(x))
        if isinstance(x, int):
            return Lin(x)
        raise Unsupported(f"not an integer expression: {x!r}")

    def __add__(self, o: Any) -> "Lin":
        o = Lin.of(o)
        t = dict(self.t)
        for k, v in o.t.items():
            t[k] = t.get(k, 0) + v
        return Lin(self.c + o.c, t)

    def __sub__(self, o: Any) -> "Lin":
        return self + Lin.of(o).mul(-1)

    def mul(self, k: int) -> "Lin":
        return Lin(self.c * k, {s: v * k for s, v in self.t.items()})

    def is_const(self) -> bool:
        return not self.t

    def key(self) -> tuple:
        return (self.c, tuple(sorted(self.t.items())))

    def __eq__(self, o: object) -> bool:
        return isinstance(o, Lin) and self.key() == o.key()

    def __hash__(self) -> int:
        return hash(self.key())

    def __repr__(self) -> str:
        parts = [f"{'' if v == 1 else v}{'*' if v != 1 else ''}{k}" for k, v in sorted(self.t.items())]
        if self.c or not parts:
            parts.append(str(self.c))
        return "+".join(parts)


class Cons:
    """Constraint store over non-negative integer symbols: intervals, substitutions, opaque facts."""

    def __init__(self) -> None:
        self.iv: dict[str, list] = {}
        self.sub: dict[str, Lin] = {}
        self.facts: dict[tuple, bool] = {}
        self.hi_default: dict[str, int] = {}

    def norm(self, e: Lin) -> Lin:
        for _ in range(8):
            hit = [s for s in e.t if s in self.sub or (s in self.iv and self.iv[s][0] == self.iv[s][1])]
            if not hit:
                return e
            e = Lin(e.c + sum(v * self.iv[s][0] for s, v in e.t.items() if s not in self.sub and s in self.iv and self.iv[s][0] == self.iv[s][1]),
                    {s: v for s, v in e.t.items() if s in self.sub or not (s in self.iv and self.iv[s][0] == self.iv[s][1])})
            out = Lin(e.c)
            for s, v in e.t.items():
                out = out + (self.sub[s].mul(v) if s in self.sub else Lin(0, {s: v}))
            e = out
        return e

    def interval(self, s: str) -> list:
        return self.iv.setdefault(s, [0, self.hi_default.get(s, INF)])

    def bounds(self, e: Lin) -> tuple:
        e = self.norm(e)
        lo = hi = e.c
        for s, v in e.t.items():
            a, b = self.interval(s)
            if v > 0:
                lo += v * a; hi += v * b
            else:
                lo += v * b; hi += v * a
        return lo, hi

    def decide(self, e: Lin, op: str) -> bool | None:
        """truth of `e op 0` if implied."""
        e = self.norm(e)
        lo, hi = self.bounds(e)
        res = {"==": (True if lo == hi == 0 else (False if lo > 0 or hi < 0 else None)),
               "!=": (False if lo == hi == 0 else (True if lo > 0 or hi < 0 else None)),
               "<": (True if hi < 0 else (False if lo >= 0 else None)),
               "<=": (True if hi <= 0 else (False if lo > 0 else None)),
               ">": (True if lo > 0 else (False if hi <= 0 else None)),
               ">=": (True if lo >= 0 else (False if hi < 0 else None))}[op]
        if res is None:
            res = self.facts.get((e.key(), op))
            if res is None and op in ("==", "!="):
                r2 = self.facts.get((e.key(), "==" if op == "!=" else "!="))
                res = None if r2 is None else (not r2)
        return res

    def assume(self, e: Lin, op: str, truth: bool) -> bool:
        """record `e op 0` == truth; False when that is infeasible."""
        e = self.norm(e)
        if not truth:
            op = {"==": "!=", "!=": "==", "<": ">=", "<=": ">", ">": "<=", ">=": "<"}[op]
        d = self.decide(e, op)
        if d is not None:
            return d
        if len(e.t) == 1:
            (s, v), = e.t.items()
            a, b = self.interval(s)
            # v*s + c op 0
            c = e.c
            if op == "==":
                if (-c) % v:
                    return False
                x = (-c) // v
                if not a <= x <= b:
                    return False
                self.iv[s] = [x, x]
                return True
            if op == "!=":
                if (-c) % v == 0:
                    x = (-c) // v
                    if a == x:
                        self.iv[s] = [a + 1, b]
                    elif b == x:
                        self.iv[s] = [a, b - 1]
                    else:
                        self.facts[(e.key(), "!=")] = True
                return True
            import math
            if op in ("<", "<="):
                # v*s <= -c (- 1 if strict)
                r = -c - (1 if op == "<" else 0)
                if v > 0:
                    b = min(b, math.floor(r / v))
                else:
                    a = max(a, math.ceil(r / v))
            else:
                r = -c + (1 if op == ">" else 0)
                if v > 0:
                    a = max(a, math.ceil(r / v))
                else:
                    b = min(b, math.floor(r / v))
            if a > b:
                return False
            self.iv[s] = [a, b]
            return True
        if op == "==":
            for s, v in sorted(e.t.items()):
                if v in (1, -1) and s not in self.sub:
                    rest = Lin(e.c, {k: w for k, w in e.t.items() if k != s})
                    a, b = self.interval(s)
                    self.iv.pop(s, None)
                    self.sub[s] = rest.mul(-1 if v == 1 else 1)
                    # the eliminated symbol's range now constrains the expression that replaces it
                    okk = self.assume(self.sub[s] - a, ">=", True)
                    if b != INF:
                        okk = okk and self.assume(self.sub[s] - b, "<=", True)
                    return okk
        self.facts[(e.key(), op)] = True
        return True


# ----------------------------------------------------------------------------- bit vectors
class BV:
    __slots__ = ("bits", "tail")

    def __init__(self, bits: tuple = (), tail: Any = None) -> None:
        bits = tuple(bits)
        if tail is None:
            while bits and bits[-1] == 0:
                bits = bits[:-1]
        self.bits = bits
        self.tail = tail  # None | ('f', name, start) | TOP

    @staticmethod
    def const(v: int) -> "BV":
        if v < 0:
            raise Unsupported("negative constant in bit arithmetic")
        return BV(tuple((v >> i) & 1 for i in range(v.bit_length())))

    def is_const(self) -> bool:
        return self.tail is None and all(b in (0, 1) for b in self.bits)

    def value(self) -> int:
        return sum(b << i for i, b in enumerate(self.bits))

    def bit(self, i: int) -> Any:
        if i < len(self.bits):
            return self.bits[i]
        if self.tail is None:
            return 0
        if self.tail == TOP:
            return TOP
        return Src("f", self.tail[1], self.tail[2] + i - len(self.bits))

    def width(self) -> float:
        return INF if self.tail is not None else len(self.bits)

    def take(self, n: int) -> "BV":
        return BV(tuple(self.bit(i) for i in range(n)))

    def shr(self, k: int) -> "BV":
        if k <= len(self.bits):
            return BV(self.bits[k:], self.tail)
        if self.tail is None:
            return BV()
        if self.tail == TOP:
            return BV((), TOP)
        return BV((), ("f", self.tail[1], self.tail[2] + k - len(self.bits)))

    def shl(self, k: int) -> "BV":
        return BV((0,) * k + self.bits, self.tail)

    def and_const(self, m: int) -> "BV":
        if m < 0:
            raise Unsupported("negative mask")
        return BV(tuple(self.bit(i) if (m >> i) & 1 else 0 for i in range(m.bit_length())))

    def _zip(self, o: "BV", f) -> "BV":
        n = max(len(self.bits), len(o.bits))
        tails = [t for t in (self.tail, o.tail) if t is not None]
        extra = 0
        if len(tails) == 2:
            # both unbounded: every higher position collides
            return BV(tuple(f(self.bit(i), o.bit(i)) for i in range(n)), TOP)
        bits = tuple(f(self.bit(i), o.bit(i)) for i in range(n))
        if tails:
            t = tails[0]
            src = self if self.tail is not None else o
            if t != TOP:
                t = ("f", t[1], t[2] + n - len(src.bits))
            return BV(bits, t)
        return BV(bits)

    def or_(self, o: "BV") -> "BV":
        def f(a, b):
            if a == 0:
                return b
            if b == 0:
                return a
            if a == 1 or b == 1:
                return 1
            return a if a == b else TOP
        return self._zip(o, f)

    def add(self, o: "BV") -> "BV":
        """a + b: equals a | b while no position has two possibly-set bits; from the first collision upward: TOP."""
        n = max(len(self.bits), len(o.bits))
        out = []
        for i in range(n):
            a, b = self.bit(i), o.bit(i)
            if a == 0:
                out.append(b)
            elif b == 0:
                out.append(a)
            else:
                return BV(tuple(out), TOP)
        if self.tail is not None and o.tail is not None:
            return BV(tuple(out), TOP)
        t = self.tail if self.tail is not None else o.tail
        if t is not None and t != TOP:
            src = self if self.tail is not None else o
            t = ("f", t[1], t[2] + n - len(src.bits))
        return BV(tuple(out), t)

    def __eq__(self, o: object) -> bool:
        return isinstance(o, BV) and self.bits == o.bits and self.tail == o.tail

    def __hash__(self) -> int:
        return hash((self.bits, self.tail))

    def __repr__(self) -> str:
        if self.is_const():
            return f"0x{self.value():x}"
        s = ",".join(str(b) for b in reversed(self.bits))
        return f"BV[{'..' + repr(self.tail) + '|' if self.tail else ''}{s}]"


@dataclass(frozen=True)
class Blob:
    origin: Any  # 'in' | ('f', field) | ('join', ...)
    lo: Lin
    hi: Lin

    def __repr__(self) -> str:
        o = self.origin if isinstance(self.origin, str) else ":".join(map(str, self.origin))
        return f"{o}[{self.lo}:{self.hi}]"


class Bytes:
    __slots__ = ("parts",)

    def __init__(self, parts: tuple = ()) -> None:
        self.parts = tuple(parts)  # BV (one octet) | Blob

    def __repr__(self) -> str:
        return "b<" + " ".join(repr(p) for p in self.parts) + ">"


@dataclass
class Obj:
    cls: str
    fields: dict = field(default_factory=dict)
    ci: Any = None

    def __repr__(self) -> str:
        return f"{self.cls}({', '.join(f'{k}={v!r}' for k, v in self.fields.items())})"


@dataclass(frozen=True)
class EnumV:
    enum: str
    value: Any  # BV

    def __repr__(self) -> str:
        return f"{self.enum}({self.value!r})"


@dataclass(frozen=True)
class ListV:
    """list of `elem` objects decoded from consecutive `stride`-octet pieces of `blob`."""
    elem: str
    stride: int
    blob: Any  # Bytes
    n: Lin


class Tup(tuple):
    pass


@dataclass(frozen=True)
class SBV:
    """a two's-complement signed integer of `n` bits read by a signed struct code; transparent for re-packing with a
    signed code of the same width, comparable only against its own full range"""
    bv: Any
    n: int

    def __repr__(self) -> str:
        return f"signed{self.n}({self.bv!r})"


@dataclass(frozen=True)
class StrV:
    """a text field, or the image of one under a named invertible transform"""
    name: str

    def __repr__(self) -> str:
        return f"str:{self.name}"


# text <-> octets transform pairs treated as mutually inverse on the values the wire format allows
# (dotted IPv4 text <-> 4 octets; assumption recorded by the clients)
INVERSE_PAIRS = {"socket.inet_aton": ("socket.inet_ntoa", 4)}


# ----------------------------------------------------------------------------- evaluator
class Run:
    """One path of one evaluation (decisions replayed from a prefix)."""

    def __init__(self, ev: "SerEval", decisions: list[int]) -> None:
        self.ev = ev
        self.decisions = decisions
        self.pos = 0
        self.branching: list[int] = []
        self.cons = Cons()
        self.notes: list[str] = []
        self.field_range: dict[str, tuple] = {}  # field -> (lo, hi) proven by guards on success
        self.zero_from: dict[str, int] = {}  # field -> bits >= this are zero on success (struct/bytes refusal)
        self.nonneg: set[str] = set()
        self.refusals: list[str] = []  # conditions under which the writer refuses (raises) instead of emitting
        self.valsym: dict[str, BV] = {}
        self.depth = 0

    def choose(self, n: int, label: str = "") -> int:
        if self.pos < len(self.decisions):
            d = self.decisions[self.pos]
        else:
            d = 0
            self.decisions.append(0)
        self.branching.append(n)
        self.pos += 1
        return d


class SerEval:
    def __init__(self, repo: Repo) -> None:
        self.repo = repo
        self.by_name: dict[str, list[ClassInfo]] = {}
        for c in repo.all_classes():
            self.by_name.setdefault(c.name.split(".")[-1], []).append(c)
        self.field_syms: dict[str, Any] = {}

    # ---------------------------------------------------------------- driver
    def paths(self, fn, max_paths: int = 400) -> list[tuple[str, Any, Run]]:
        """fn(run) -> value; explores every decision sequence. Returns (outcome, value|exc, run)."""
        out = []
        stack: list[list[int]] = [[]]
        while stack:
            dec = stack.pop()
            run = Run(self, list(dec))
            try:
                v = fn(run)
                out.append(("return", v, run))
            except AbstractRaise as r:
                out.append((f"raise {r.exc}", r.why, run))
            # alternatives for decisions made beyond the given prefix
            for i in range(len(dec), len(run.decisions)):
                for alt in range(1, run.branching[i]):
                    stack.append(run.decisions[:i] + [alt])
            if len(out) > max_paths:
                raise Unsupported("path explosion")
        return out

    # ---------------------------------------------------------------- helpers
    def cls_of(self, name: str, mod=None) -> ClassInfo | None:
        if mod is not None:
            t = self.repo.resolve(mod.name, name)
            if isinstance(t, ClassInfo):
                return t
        cs = self.by_name.get(name, [])
        return cs[0] if len(cs) == 1 else None

    def to_lin(self, v: Any, run: Run) -> Lin:
        if isinstance(v, Lin):
            return v
        if isinstance(v, bool):
            return Lin(int(v))
        if isinstance(v, int):
            return Lin(v)
        if isinstance(v, EnumV):
            v = v.value
        if isinstance(v, BV):
            if v.is_const():
                return Lin(v.value())
            if v.tail is not None:
                raise Unsupported("arithmetic on an unbounded integer")
            if v.bits and all(isinstance(b, Src) and b.kind == "f" and str(b.name).startswith("#") and b.idx == i and b.name == v.bits[0].name for i, b in enumerate(v.bits)):
                sym = v.bits[0].name[1:]
                lo_, hi_ = run.cons.interval(sym)
                if hi_ != INF and int(hi_).bit_length() <= len(v.bits):
                    return Lin(0, {sym: 1})  # the octets of a length written by the encoder: the length itself
            k = 0
            while k < len(v.bits) and v.bits[k] == 0:
                k += 1
            if k:
                return self.to_lin(BV(v.bits[k:]), run).mul(1 << k)
            key = "val:" + repr(v)
            run.valsym[key] = v
            run.cons.hi_default[key] = (1 << len(v.bits)) - 1
            return Lin(0, {key: 1})
        raise Unsupported(f"not an integer: {v!r}")

    def to_bv(self, v: Any, run: Run) -> BV:
        if isinstance(v, BV):
            return v
        if isinstance(v, bool):
            return BV.const(int(v))
        if isinstance(v, int):
            return BV.const(v)
        if isinstance(v, EnumV):
            return self.to_bv(v.value, run)
        if isinstance(v, Lin):
            v = run.cons.norm(v)
            if v.is_const():
                return BV.const(v.c)
            if len(v.t) == 1 and v.c == 0:
                (s, k), = v.t.items()
                if k == 1 and s in run.valsym:
                    return run.valsym[s]
                if k == 1:
                    # an integer symbol (a length): opaque bits named after the symbol
                    lo, hi = run.cons.interval(s)
                    w = int(hi).bit_length() if hi != INF else None
                    if w is None:
                        return BV((), ("f", "#" + s, 0))
                    return BV(tuple(Src("f", "#" + s, i) for i in range(w)))
            # any other integer expression (e.g. a length difference): opaque bits named after the expression
            lo_, hi_ = run.cons.bounds(v)
            if lo_ < 0:
                raise Unsupported(f"possibly negative integer expression {v} used bitwise")
            nm = f"#({v})"
            if hi_ == INF:
                return BV((), ("f", nm, 0))
            return BV(tuple(Src("f", nm, i) for i in range(int(hi_).bit_length())))
        raise Unsupported(f"not an integer: {v!r}")

    def blob_len(self, p: Any) -> Lin:
        return Lin(1) if isinstance(p, BV) else (p.hi - p.lo)

    def length(self, b: Bytes, run: Run) -> Lin:
        out = Lin(0)
        for p in b.parts:
            out = out + self.blob_len(p)
        return run.cons.norm(out)

    def norm_bytes(self, b: Bytes, run: Run) -> Bytes:
        parts: list = []
        for p in b.parts:
            if isinstance(p, Blob):
                p = Blob(p.origin, run.cons.norm(p.lo), run.cons.norm(p.hi))
                d = run.cons.decide(p.hi - p.lo, "<=")
                if d is True:
                    continue
                if parts and isinstance(parts[-1], Blob) and parts[-1].origin == p.origin and parts[-1].hi == p.lo:
                    parts[-1] = Blob(p.origin, parts[-1].lo, p.hi)
                    continue
            parts.append(p)
        return Bytes(tuple(parts))

    def octet_of(self, origin: Any, k: int) -> BV:
        name = k if origin == "in" else (origin, k)
        return BV(tuple(Src("in" if origin == "in" else "fb", name, j) for j in range(8)))

    def index(self, b: Bytes, i: int, run: Run) -> BV:
        """b[i] for a constant i >= 0; forks on IndexError when the length is not known to suffice."""
        if i < 0:
            n = run.cons.norm(self.length(b, run))
            if not n.is_const():
                raise Unsupported("negative index into a byte string of symbolic length")
            i += n.c
        off = Lin(0)
        for p in b.parts:
            if isinstance(p, BV):
                if off.is_const() and off.c == i:
                    return p
                off = off + 1
                continue
            pl = run.cons.norm(p.hi - p.lo)
            rel = Lin(i) - off  # index inside this blob
            if not rel.is_const() and not run.cons.norm(rel).is_const():
                raise Unsupported("index after a variable-length part")
            rel = run.cons.norm(rel)
            inside = self.test(pl - rel, ">", run)  # pl > rel
            if inside:
                lo = run.cons.norm(p.lo)
                if not lo.is_const():
                    raise Unsupported("index into a blob with symbolic start")
                return self.octet_of(p.origin, lo.c + rel.c)
            off = off + pl
        raise AbstractRaise("IndexError", f"index {i} out of range")

    def slice_(self, b: Bytes, lo: Lin | None, hi: Lin | None, run: Run) -> Bytes:
        n = self.length(b, run)
        lo = Lin(0) if lo is None else run.cons.norm(lo)
        hi = n if hi is None else run.cons.norm(hi)
        if lo.is_const() and lo.c < 0:  # Python: a negative bound counts from the end (clamped at 0)
            lo = run.cons.norm(n + lo.c)
            if self.test(lo, "<", run):
                lo = Lin(0)
        if hi.is_const() and hi.c < 0:
            hi = run.cons.norm(n + hi.c)
            if self.test(hi, "<", run):
                hi = Lin(0)
        # Python clamps: hi = min(hi, n); lo = min(lo, n)
        if self.test(hi - n, ">", run):
            hi = n
        if self.test(lo - hi, ">", run):
            return Bytes()
        out: list = []
        off = Lin(0)
        for p in b.parts:
            pl = self.blob_len(p)
            pend = run.cons.norm(off + pl)
            # overlap of [off, pend) with [lo, hi)
            if self.test(pend - lo, "<=", run) or self.test(hi - off, "<=", run):
                off = pend
                continue
            if isinstance(p, BV):
                out.append(p)
            else:
                a = p.lo if self.test(lo - off, "<=", run) else run.cons.norm(p.lo + (lo - off))
                if run.cons.decide(hi - pend, ">=") is True:
                    e = p.hi
                elif run.cons.decide(hi - pend, "<=") is True:
                    e = run.cons.norm(p.lo + (hi - off))
                else:
                    e = p.hi if self.test(hi - pend, ">=", run) else run.cons.norm(p.lo + (hi - off))
                out.append(Blob(p.origin, run.cons.norm(a), run.cons.norm(e)))
            off = pend
        return self.norm_bytes(Bytes(tuple(out)), run)

    def test(self, e: Lin, op: str, run: Run) -> bool:
        """truth of `e op 0`, forking when undecided."""
        d = run.cons.decide(e, op)
        if d is not None:
            return d
        c = run.choose(2, f"{e} {op} 0")
        truth = c == 0
        if not run.cons.assume(e, op, truth):
            # infeasible alternative: take the other one without recording a new decision
            truth = not truth
            run.cons.assume(e, op, truth)
        return truth

    def explode(self, b: Bytes, n: int, run: Run) -> list[BV]:
        """the n octets of b (requires len(b) == n, struct.error otherwise)."""
        ln = self.length(b, run)
        if not self.test(ln - n, "==", run):
            raise AbstractRaise("struct.error", f"need {n} octets, have {ln}")
        return [self.index(b, i, run) for i in range(n)]

    # ---------------------------------------------------------------- struct
    def parse_fmt(self, fmt: str) -> list[tuple[str, int]]:
        f = fmt.lstrip("!><=@")
        out = []
        for cnt, code in re.findall(r"(\d*)([xcbB?hHiIlLqQs])", f):
            if code == "s":
                out.append(("s", int(cnt) if cnt else 1))
            else:
                for _ in range(int(cnt) if cnt else 1):
                    out.append((code, {"B": 1, "H": 2, "I": 4, "L": 4, "Q": 8, "x": 1, "b": 1, "h": 2, "i": 4, "l": 4, "q": 8, "?": 1, "c": 1}[code]))
        return out

    def fmt_of(self, node: ast.AST, env: dict, run: Run) -> list[tuple[str, Any]]:
        """struct format: literal or f-string with one `{name}s` whose name holds a length."""
        if isinstance(node, ast.Constant) and isinstance(node.value, str):
            return self.parse_fmt(node.value)
        if isinstance(node, ast.JoinedStr):
            out: list = []
            vals = node.values
            i = 0
            while i < len(vals):
                v = vals[i]
                if isinstance(v, ast.Constant):
                    txt = v.value
                    if i > 0 and isinstance(vals[i - 1], ast.FormattedValue):
                        if not txt.startswith("s"):
                            raise Unsupported("f-string struct format: only `{n}s` is modelled")
                        txt = txt[1:]
                    out += self.parse_fmt(txt)
                else:
                    n = self.expr(v.value, env, run)
                    out.append(("s", self.to_lin(n, run)))
                i += 1
            return out
        v = self.repo.fold(node, env["#mod"], env.get("#cls"))
        if isinstance(v, str):
            return self.parse_fmt(v)
        raise Unsupported("struct format not a literal")

    def unpack(self, fmt, b: Bytes, run: Run) -> Tup:
        total = Lin(0)
        for code, n in fmt:
            total = total + n
        ln = self.length(b, run)
        if not self.test(ln - total, "==", run):
            raise AbstractRaise("struct.error", f"unpack requires {total} octets, have {ln}")
        out = []
        off = Lin(0)
        for code, n in fmt:
            if code == "s":
                out.append(self.slice_(b, off, off + n, run))
            elif code == "x":
                pass
            else:
                if code not in "BHILQ?bhilq":
                    raise Unsupported(f"struct code {code}")
                o = run.cons.norm(off)
                if not o.is_const():
                    raise Unsupported("integer field after a variable-length field")
                octs = [self.index(b, o.c + i, run) for i in range(n)]
                bits: tuple = ()
                for oc in reversed(octs):
                    bits = bits + oc.take(8).bits + (0,) * (8 - len(oc.take(8).bits))
                out.append(SBV(BV(bits), 8 * n) if code in "bhilq" else BV(bits))
            off = off + n
        return Tup(out)

    def fit(self, v: Any, nbits: int, run: Run, what: str) -> BV:
        """the value as an unsigned `nbits` quantity; records the refusal condition for anything wider."""
        v = self.to_bv(v, run)
        if v.tail is None and len(v.bits) <= nbits:
            return v
        # bits >= nbits must be zero on success
        if v.tail is not None and v.tail != TOP and all(b == 0 for b in v.bits[nbits:]) and len(v.bits) <= nbits:
            name, start = v.tail[1], v.tail[2]
            z = start + (nbits - len(v.bits))
            run.zero_from[name] = min(run.zero_from.get(name, INF), z)
            run.nonneg.add(name)
            if str(name).startswith("#") and start == 0 and not v.bits:
                # an integer symbol (a length) forced into nbits: its range is now bounded
                if not run.cons.assume(Lin(0, {name[1:]: 1}) - ((1 << nbits) - 1), "<=", True):
                    raise AbstractRaise("struct.error", "length does not fit")
            return v.take(nbits)
        hi_bits = [v.bit(i) for i in range(nbits, max(len(v.bits), nbits))]
        for i, hb in enumerate(hi_bits):
            if isinstance(hb, Src) and hb.kind == "f":
                run.zero_from[hb.name] = min(run.zero_from.get(hb.name, INF), hb.idx)
        if v.tail is not None and v.tail != TOP:
            name, start = v.tail[1], v.tail[2]
            run.zero_from[name] = min(run.zero_from.get(name, INF), start)
            run.nonneg.add(name)
        run.refusals.append(f"{what}: refused unless the value fits {nbits} bits")
        return v.take(nbits)

    def pack(self, fmt, vals: list, run: Run) -> Bytes:
        parts: list = []
        it = iter(vals)
        for code, n in fmt:
            if code == "x":
                parts.append(BV())
                continue
            try:
                v = next(it)
            except StopIteration:
                raise AbstractRaise("struct.error", "too few values") from None
            if code == "s":
                if not isinstance(v, Bytes):
                    raise Unsupported("'s' field from a non-bytes value")
                ln = self.length(v, run)
                n_l = run.cons.norm(Lin.of(n))
                eq = run.cons.decide(ln - n_l, "==")
                if eq is True:
                    parts += list(v.parts)
                else:
                    # struct pads with NULs / truncates silently
                    ge = run.cons.decide(n_l - ln, ">=")
                    kind = "padded" if ge is True else ("truncated" if run.cons.decide(n_l - ln, "<=") is True else "padded or truncated")
                    run.notes.append(f"LOSSY:{kind} struct 's' field of {n_l} octets from a value of {ln} octets: {kind} silently")
                    parts.append(Blob(("lossy",), Lin(0), n_l))
            else:
                if code in "bhilq":
                    if isinstance(v, SBV) and v.n == 8 * n:
                        bv = v.bv
                    elif isinstance(v, SBV):
                        raise Unsupported("signed value repacked at another width")
                    else:
                        # a non-negative value below 2**(8n-1) packs like its unsigned form
                        bv = self.fit(v, 8 * n - 1, run, f"struct '{code}' (non-negative part)")
                    for i in reversed(range(n)):
                        parts.append(bv.shr(8 * i).take(8))
                    continue
                if code not in "BHILQ?":
                    raise Unsupported(f"struct code {code}")
                bv = self.fit(v, 8 * n, run, f"struct '{code}'")
                for i in reversed(range(n)):
                    parts.append(bv.shr(8 * i).take(8))
        if next(it, None) is not None:
            raise AbstractRaise("struct.error", "too many values")
        return self.norm_bytes(Bytes(tuple(parts)), run)

    # ---------------------------------------------------------------- calls into the repository
    def call_function(self, fi: FuncInfo, args: list, kwargs: dict, run: Run, self_val: Any = None, ctx: ClassInfo | None = None) -> Any:
        run.depth += 1
        if run.depth > 12:
            raise Unsupported("inlining depth")
        try:
            a = fi.node.args
            names = [x.arg for x in a.posonlyargs + a.args]
            env: dict = {"#mod": fi.module, "#cls": ctx or fi.cls, "#fi": fi}
            decos = fi.decorators
            pos = list(args)
            if fi.cls is not None and "staticmethod" not in decos:
                first = names[0]
                env[first] = self_val if "classmethod" not in decos else ("#class", ctx or fi.cls)
                names = names[1:]
            defaults = a.defaults
            for i, n in enumerate(names):
                if i < len(pos):
                    env[n] = pos[i]
                elif n in kwargs:
                    env[n] = kwargs[n]
                else:
                    di = i - (len(names) - len(defaults))
                    if di < 0:
                        raise Unsupported(f"missing argument {n} for {fi.qualname}")
                    env[n] = self.expr(defaults[di], env, run)
            for x, d in zip(a.kwonlyargs, a.kw_defaults):
                env[x.arg] = kwargs[x.arg] if x.arg in kwargs else (self.expr(d, env, run) if d is not None else None)
            try:
                self.block(fi.node.body, env, run)
            except _Return as r:
                return r.value
            return None
        finally:
            run.depth -= 1

    def construct(self, ci: ClassInfo, args: list, kwargs: dict, run: Run) -> Any:
        name = ci.name
        if self.repo.is_enum(ci):
            if len(args) != 1:
                raise Unsupported("enum constructor arity")
            v = args[0]
            if isinstance(v, EnumV):
                return v
            bv = self.to_bv(v, run)
            members = [x for x in self.repo.enum_members(ci).values() if isinstance(x, int)]
            if bv.is_const():
                if bv.value() not in members:
                    raise AbstractRaise("ValueError", f"{bv.value()} is not a valid {name}")
                return EnumV(ci.ref, bv)
            w = bv.width()
            total = w != INF and all(x in members for x in range(1 << int(w)))
            if (ci.ref, repr(bv)) in run.__dict__.get("known_members", set()):
                total = True  # the very bits of a field assumed to hold a member of this enum
            if not total:
                if run.choose(2, f"{name} member?") == 1:
                    raise AbstractRaise("ValueError", f"not a valid {name}")
                run.notes.append(f"assume {bv!r} is a member of {name}")
                run.__dict__.setdefault("known_members", set()).add((ci.ref, repr(bv)))
            return EnumV(ci.ref, bv)
        if name in ("IndividualAddress", "GroupAddress"):
            v = args[0] if args else kwargs.get("address")
            if isinstance(v, Obj):
                return v
            bv = self.to_bv(v, run)
            if bv.width() > 16:
                bv = self.fit(bv, 16, run, f"{name}(raw)")
            return Obj(name, {"raw": bv}, ci)
        if name == "DPTBinary":
            v = self.to_bv(args[0] if args else kwargs["value"], run)
            if v.width() > 6:
                v = self.fit(v, 6, run, "DPTBinary(value)")
            return Obj(name, {"value": v}, ci)
        if name == "DPTArray":
            v = args[0] if args else kwargs["value"]
            if isinstance(v, (BV, Lin, EnumV)) or (isinstance(v, int) and not isinstance(v, bool)):
                v = Tup([v])
            if isinstance(v, (tuple, list)):
                # DPTArray stores the integers unchecked: an element wider than an octet stays in the payload
                octs = []
                for x in v:
                    bv = self.to_bv(x, run)
                    if bv.width() > 8:
                        run.notes.append(f"UNCHECKED DPTArray element {bv!r} may exceed an octet")
                    octs.append(bv.take(8) if bv.width() <= 8 else bv)
                return Obj(name, {"value": Bytes(tuple(octs))}, ci)
            if not isinstance(v, Bytes):
                raise Unsupported("DPTArray from a non-bytes value")
            return Obj(name, {"value": v}, ci)
        is_dc = any("dataclass" in ast.unparse(d) for c in self.repo.mro(ci) for d in c.node.decorator_list)
        init = self.repo.lookup_method(ci, "__init__")
        if init is not None and not is_dc:
            o = Obj(name, {}, ci)
            self.call_function(init, args, kwargs, run, self_val=o, ctx=ci)
            return o
        # dataclass: annotated fields in MRO order
        o = Obj(name, {}, ci)
        fields_: list[tuple[str, ast.expr | None, ClassInfo]] = []
        for c in reversed(self.repo.mro(ci)):
            for st in c.node.body:
                if isinstance(st, ast.AnnAssign) and isinstance(st.target, ast.Name) and "ClassVar" not in ast.unparse(st.annotation):
                    fields_ = [f for f in fields_ if f[0] != st.target.id] + [(st.target.id, st.value, c)]
        pos = list(args)
        for i, (fname, default, owner) in enumerate(fields_):
            if i < len(pos):
                o.fields[fname] = pos[i]
            elif fname in kwargs:
                o.fields[fname] = kwargs[fname]
            elif default is not None:
                if isinstance(default, ast.Call) and ast.unparse(default.func) == "field":
                    o.fields[fname] = ListV("?", 0, Bytes(), Lin(0))
                else:
                    o.fields[fname] = self.expr(default, {"#mod": owner.module, "#cls": owner}, run)
            else:
                raise Unsupported(f"missing field {fname} for {name}")
        pi = self.repo.lookup_method(ci, "__post_init__")
        if pi is not None:
            self.call_function(pi, [], {}, run, self_val=o, ctx=ci)
        return o

    # ---------------------------------------------------------------- statements
    def block(self, stmts: list, env: dict, run: Run) -> None:
        for st in stmts:
            self.stmt(st, env, run)

    def truth(self, v: Any, run: Run, label: str = "") -> bool:
        if v is None:
            return False
        if isinstance(v, bool):
            return v
        if isinstance(v, int):
            return v != 0
        if isinstance(v, Lin):
            return self.test(Lin.of(v), "!=", run)
        if isinstance(v, Bytes):
            return self.test(self.length(v, run), ">", run)
        if isinstance(v, (Obj, EnumV)) and not isinstance(v, EnumV):
            return True
        if isinstance(v, EnumV):
            v = v.value
        if isinstance(v, BV):
            if v.is_const():
                return v.value() != 0
            bitvals = run.__dict__.setdefault("bitvals", {})
            nz_ = [b for b in v.bits if b != 0]
            if v.tail is None and len(nz_) == 1 and isinstance(nz_[0], Src):
                # one symbolic bit: decided once per path
                if nz_[0] in bitvals:
                    return bitvals[nz_[0]]
                c = run.choose(2, f"bit {nz_[0]!r}")
                bitvals[nz_[0]] = (c == 0)
                run.notes.append(f"branch on {nz_[0]!r} = {int(c == 0)}")
                if c == 1:
                    self.assume_zero(v, run)
                return c == 0
            if v.tail is None and all(isinstance(b, Src) and bitvals.get(b) is False for b in nz_):
                return False
            if v.tail is None and any(isinstance(b, Src) and bitvals.get(b) is True for b in nz_):
                return True
            c = run.choose(2, f"truth of {v!r} {label}")
            run.notes.append(f"branch on {v!r} {'!= 0' if c == 0 else '== 0'}")
            if c == 1:
                self.assume_zero(v, run)
            return c == 0
        if isinstance(v, ListV):
            return self.test(v.n, ">", run)
        if isinstance(v, (tuple, list)):
            return len(v) > 0
        raise Unsupported(f"truth of {v!r}")

    def resolve_bits(self, v: Any, run: Run) -> Any:
        """substitute the bits this path has decided (single-bit branches, values assumed zero)"""
        if not isinstance(v, BV):
            return v
        bitvals = run.__dict__.get("bitvals", {})
        zero = run.__dict__.get("zero_bits", set())
        return BV(tuple((1 if bitvals.get(b) is True else 0 if (bitvals.get(b) is False or b in zero) else b) if isinstance(b, Src) else b for b in v.bits), v.tail)

    def assume_zero(self, v: BV, run: Run) -> None:
        run.__dict__.setdefault("zero_bits", set()).update(b for b in v.bits if isinstance(b, Src))

    def stmt(self, st: ast.stmt, env: dict, run: Run) -> None:
        if isinstance(st, ast.Expr):
            if isinstance(st.value, ast.Constant):
                return
            self.expr(st.value, env, run)
            return
        if isinstance(st, ast.Return):
            raise _Return(self.expr(st.value, env, run) if st.value is not None else None)
        if isinstance(st, ast.Raise):
            name = "Exception"
            if st.exc is not None:
                e = st.exc.func if isinstance(st.exc, ast.Call) else st.exc
                name = ast.unparse(e).split(".")[-1]
            raise AbstractRaise(name, f"explicit raise at line {st.lineno}")
        if isinstance(st, ast.Assign):
            v = self.expr(st.value, env, run)
            for t in st.targets:
                self.assign(t, v, env, run)
            return
        if isinstance(st, ast.AnnAssign):
            if st.value is not None:
                self.assign(st.target, self.expr(st.value, env, run), env, run)
            return
        if isinstance(st, ast.AugAssign):
            cur = self.expr(ast.copy_location(ast.Name(id=st.target.id, ctx=ast.Load()), st.target) if isinstance(st.target, ast.Name) else st.target, env, run)
            v = self.binop(st.op, cur, self.expr(st.value, env, run), run)
            self.assign(st.target, v, env, run)
            return
        if isinstance(st, ast.If):
            if self.truth(self.expr(st.test, env, run), run, f"line {st.lineno}"):
                self.block(st.body, env, run)
            else:
                self.block(st.orelse, env, run)
            return
        if isinstance(st, ast.Try):
            try:
                self.block(st.body, env, run)
            except AbstractRaise as r:
                for h in st.handlers:
                    names = ["BaseException"] if h.type is None else [ast.unparse(x).split(".")[-1] for x in (h.type.elts if isinstance(h.type, ast.Tuple) else [h.type])]
                    if any(self.exc_is(r.exc, n) for n in names):
                        self.block(h.body, env, run)
                        break
                else:
                    raise
            else:
                self.block(st.orelse, env, run)
            self.block(st.finalbody, env, run)
            return
        if isinstance(st, ast.For) and not st.orelse:
            it = self.expr(st.iter, env, run)
            if isinstance(it, (tuple, list)) and not (it and it[0] == "#pieces"):
                for x in it:
                    self.assign(st.target, x, env, run)
                    try:
                        self.block(st.body, env, run)
                    except _Continue:
                        continue
                return
            raise Unsupported(f"for loop over {type(it).__name__} at line {st.lineno}")
        if isinstance(st, ast.Pass):
            return
        if isinstance(st, ast.Continue):
            raise _Continue()
        if isinstance(st, ast.FunctionDef):
            env[st.name] = ("#closure", st, env)
            return
        if isinstance(st, ast.Assert):
            if not self.truth(self.expr(st.test, env, run), run, f"assert line {st.lineno}"):
                raise AbstractRaise("AssertionError", f"assert at line {st.lineno}")
            return
        raise Unsupported(f"statement {type(st).__name__} at line {st.lineno}")

    def exc_is(self, exc: str, of: str) -> bool:
        if exc == of or of in ("Exception", "BaseException"):
            return True
        table = {"struct.error": ["error"], "error": ["struct.error"], "IndexError": ["LookupError"], "KeyError": ["LookupError"], "UnicodeDecodeError": ["ValueError"]}
        if of in table.get(exc, []):
            return True
        cs = self.by_name.get(exc, [])
        ofs = self.by_name.get(of, [])
        return bool(cs and ofs and self.repo.is_subclass(cs[0], ofs[0]))

    def assign(self, t: ast.AST, v: Any, env: dict, run: Run) -> None:
        if isinstance(t, ast.Name):
            env[t.id] = v
            return
        if isinstance(t, (ast.Tuple, ast.List)):
            if not isinstance(v, (tuple, list)) or len(v) != len(t.elts):
                raise Unsupported(f"tuple unpacking of {v!r}")
            for tt, vv in zip(t.elts, v):
                self.assign(tt, vv, env, run)
            return
        if isinstance(t, ast.Attribute):
            o = self.expr(t.value, env, run)
            if isinstance(o, Obj):
                o.fields[t.attr] = v
                run.__dict__.setdefault("assigned", {}).setdefault(id(o), set()).add(t.attr)
                return
        raise Unsupported(f"assignment target {ast.unparse(t)}")

    # ---------------------------------------------------------------- expressions
    def binop(self, op: ast.operator, a: Any, b: Any, run: Run) -> Any:
        if isinstance(a, Bytes) or isinstance(b, Bytes):
            if isinstance(op, ast.Add) and isinstance(a, Bytes) and isinstance(b, Bytes):
                return self.norm_bytes(Bytes(a.parts + b.parts), run)
            raise Unsupported("bytes operator")
        if isinstance(op, (ast.BitAnd, ast.BitOr, ast.LShift, ast.RShift, ast.BitXor)):
            x, y = self.to_bv(a, run), self.to_bv(b, run)
            if isinstance(op, ast.BitAnd):
                if y.is_const():
                    return x.and_const(y.value())
                if x.is_const():
                    return y.and_const(x.value())
                raise Unsupported("& of two symbolic values")
            if isinstance(op, ast.BitOr):
                return x.or_(y)
            if isinstance(op, ast.BitXor):
                raise Unsupported("xor")
            if not y.is_const():
                raise Unsupported("shift by a symbolic amount")
            return x.shl(y.value()) if isinstance(op, ast.LShift) else x.shr(y.value())
        if isinstance(op, ast.Mult):
            for p, q in ((a, b), (b, a)):
                if isinstance(q, (int, BV)) and not isinstance(q, bool):
                    qv = q if isinstance(q, int) else (q.value() if q.is_const() else None)
                    if qv is not None and qv > 0 and qv & (qv - 1) == 0 and isinstance(p, (BV, EnumV)):
                        return self.to_bv(p, run).shl(qv.bit_length() - 1)
            la, lb = self.to_lin(a, run), self.to_lin(b, run)
            if la.is_const():
                return run.cons.norm(lb.mul(la.c))
            if lb.is_const():
                return run.cons.norm(la.mul(lb.c))
            raise Unsupported("product of two symbolic values")
        if isinstance(op, ast.Add):
            if isinstance(a, (BV, EnumV)) or isinstance(b, (BV, EnumV)):
                if not isinstance(a, Lin) and not isinstance(b, Lin):
                    x, y = self.to_bv(a, run), self.to_bv(b, run)
                    r = x.add(y)
                    if (r.tail == TOP or TOP in r.bits) and x.tail is None and y.tail is None and TOP not in x.bits and TOP not in y.bits:
                        return run.cons.norm(self.to_lin(x, run) + self.to_lin(y, run))  # carries: arithmetic, not bit packing
                    return r
            return run.cons.norm(self.to_lin(a, run) + self.to_lin(b, run))
        if isinstance(op, ast.Sub):
            return run.cons.norm(self.to_lin(a, run) - self.to_lin(b, run))
        if isinstance(op, ast.Mod):
            la, lb = run.cons.norm(self.to_lin(a, run)), self.to_lin(b, run)
            if not lb.is_const() or lb.c <= 0:
                raise Unsupported("modulo by a symbolic value")
            k = lb.c
            if la.is_const():
                return la.c % k
            if all(v % k == 0 for v in la.t.values()):
                return la.c % k
            # undecided remainder: fork on "divisible"; on the divisible branch introduce the quotient
            memo = run.__dict__.setdefault("modfacts", {})
            if (la.key(), k) in memo:
                return memo[(la.key(), k)]
            c = run.choose(2, f"{la} % {k}")
            if c == 0:
                # divisible: la = k*q for a fresh q  (solve for one unit-coefficient symbol)
                q = f"q{len(run.cons.sub)}:{la}"
                for s, v in sorted(la.t.items()):
                    if v in (1, -1) and s not in run.cons.sub:
                        rest = Lin(la.c, {x: w for x, w in la.t.items() if x != s})
                        # v*s + rest = k*q  =>  s = (k*q - rest)/v
                        run.cons.sub[s] = (Lin(0, {q: k}) - rest).mul(1 if v == 1 else -1)
                        return 0
                raise Unsupported("cannot express divisibility")
            memo[(la.key(), k)] = self._nonzero_sym(run, f"rem({la}%{k})", k - 1)
            return memo[(la.key(), k)]
        if isinstance(op, ast.Pow) and isinstance(a, int) and isinstance(b, int) and not isinstance(a, bool) and 0 <= b < 256:
            return a ** b
        if isinstance(op, ast.FloorDiv):
            la, lb = run.cons.norm(self.to_lin(a, run)), self.to_lin(b, run)
            if lb.is_const() and lb.c > 0 and all(v % lb.c == 0 for v in la.t.values()) and la.c % lb.c == 0:
                return Lin(la.c // lb.c, {s: v // lb.c for s, v in la.t.items()})
            raise Unsupported("floor division")
        raise Unsupported(f"operator {type(op).__name__}")

    def _nonzero_sym(self, run: Run, name: str, hi: int) -> Lin:
        run.cons.iv[name] = [1, hi]
        return Lin(0, {name: 1})

    def compare(self, op: ast.cmpop, a: Any, b: Any, run: Run) -> bool:
        if isinstance(op, (ast.Is, ast.IsNot)):
            if a is None or b is None:
                r = (a is None) == (b is None)
                return r if isinstance(op, ast.Is) else not r
            if isinstance(a, ClassInfo) and isinstance(b, ClassInfo):
                return (a.ref == b.ref) if isinstance(op, ast.Is) else (a.ref != b.ref)
            if isinstance(a, (EnumV, EnumMember)) and isinstance(b, (EnumV, EnumMember)):
                r = self.compare(ast.Eq(), a, b, run)  # enum members are singletons
                return r if isinstance(op, ast.Is) else not r
            raise Unsupported("identity comparison")
        if isinstance(op, (ast.In, ast.NotIn)):
            if isinstance(b, (tuple, list)):
                hit = False
                for x in b:
                    if self.compare(ast.Eq(), a, x, run):
                        hit = True
                        break
                return hit if isinstance(op, ast.In) else not hit
            if isinstance(b, (frozenset, set)) and all(isinstance(x, int) and not isinstance(x, bool) for x in b):
                av = a if isinstance(a, int) and not isinstance(a, bool) else (a.value() if isinstance(a, BV) and a.is_const() else None)
                if av is not None:
                    return (av in b) if isinstance(op, ast.In) else (av not in b)
                # a symbolic value against a constant set of integers (eg. "is this code assigned to another service"):
                # both outcomes are explored; no constraint is recorded (over-approximation)
                return run.choose(2, f"membership in a set of {len(b)} constants") == 0
            raise Unsupported("membership in a non-tuple")
        sym = {ast.Eq: "==", ast.NotEq: "!=", ast.Lt: "<", ast.LtE: "<=", ast.Gt: ">", ast.GtE: ">="}[type(op)]
        for x_, y_, s_ in ((a, b, sym), (b, a, {"<": ">", ">": "<", "<=": ">=", ">=": "<="}.get(sym, sym))):
            if isinstance(x_, SBV):
                yv_ = y_ if isinstance(y_, int) and not isinstance(y_, bool) else (y_.value() if isinstance(y_, BV) and y_.is_const() else None)
                lo_, hi_ = -(1 << (x_.n - 1)), (1 << (x_.n - 1)) - 1
                if yv_ is not None:
                    if (s_ == "<=" and yv_ >= hi_) or (s_ == ">=" and yv_ <= lo_) or (s_ == "<" and yv_ > hi_) or (s_ == ">" and yv_ < lo_):
                        return True
                    if (s_ == ">" and yv_ >= hi_) or (s_ == "<" and yv_ <= lo_):
                        return False
                raise Unsupported("comparison of a signed wire value inside its range")
        if a is None or b is None:
            if sym in ("==", "!="):
                return ((a is None) == (b is None)) == (sym == "==")
            raise Unsupported("ordering with None")
        if isinstance(a, EnumV) or isinstance(b, EnumV):
            a = a.value if isinstance(a, EnumV) else a
            b = b.value if isinstance(b, EnumV) else b
        if isinstance(a, EnumMember):
            a = a.value
        if isinstance(b, EnumMember):
            b = b.value
        # bit-level comparison with a constant where possible (guards on fields)
        for x, y, s in ((a, b, sym), (b, a, {"<": ">", ">": "<", "<=": ">=", ">=": "<="}.get(sym, sym))):
            if isinstance(x, BV) and not x.is_const() and isinstance(y, (int, BV, Lin)) and not isinstance(y, bool):
                yv = y if isinstance(y, int) else (y.value() if isinstance(y, BV) and y.is_const() else (y.c if isinstance(y, Lin) and y.is_const() else None))
                if yv is not None:
                    return self.cmp_bv_const(x, s, yv, run)
        return self.test(self.to_lin(a, run) - self.to_lin(b, run), sym, run)

    def cmp_bv_const(self, x: BV, sym: str, k: int, run: Run) -> bool:
        """field / input value compared with a constant: the guard idiom.  Unbounded field tails are refined by
        range guards; bounded vectors decide by width, else fork."""
        if x.tail is not None and x.tail != TOP and not x.bits and x.tail[2] == 0:
            name = x.tail[1]
            lo, hi = run.field_range.get(name, (-INF, INF))
            # decide from the known range
            dec = {"<": (True if hi < k else False if lo >= k else None), "<=": (True if hi <= k else False if lo > k else None),
                   ">": (True if lo > k else False if hi <= k else None), ">=": (True if lo >= k else False if hi < k else None),
                   "==": (True if lo == hi == k else False if k < lo or k > hi else None), "!=": (False if lo == hi == k else True if k < lo or k > hi else None)}[sym]
            if dec is not None:
                return dec
            c = run.choose(2, f"{name} {sym} {k}")
            truth = c == 0
            s2 = sym if truth else {"<": ">=", "<=": ">", ">": "<=", ">=": "<", "==": "!=", "!=": "=="}[sym]
            if s2 == "<":
                hi = min(hi, k - 1)
            elif s2 == "<=":
                hi = min(hi, k)
            elif s2 == ">":
                lo = max(lo, k + 1)
            elif s2 == ">=":
                lo = max(lo, k)
            elif s2 == "==":
                lo = hi = k
            run.field_range[name] = (lo, hi)
            return truth
        if x.tail is not None:
            raise Unsupported(f"comparison of an unbounded derived value {x!r}")
        w = len(x.bits)
        mx = (1 << w) - 1
        # the vector is a whole field as it went onto the wire (bits 0..w-1 of one field whose guards bound it to the
        # width): what the writer's guards established about the field holds for it
        if w and all(isinstance(b_, Src) and b_.kind == "f" and b_.idx == i_ and b_.name == x.bits[0].name for i_, b_ in enumerate(x.bits)):
            lo, hi = run.field_range.get(x.bits[0].name, (-INF, INF))
            if lo >= 0 and hi <= mx:
                dec = {"<": (True if hi < k else False if lo >= k else None), "<=": (True if hi <= k else False if lo > k else None),
                       ">": (True if lo > k else False if hi <= k else None), ">=": (True if lo >= k else False if hi < k else None),
                       "==": (True if lo == hi == k else False if k < lo or k > hi else None), "!=": (False if lo == hi == k else True if k < lo or k > hi else None)}[sym]
                if dec is not None:
                    return dec
        dec = {"<": (True if mx < k else False if k <= 0 else None), "<=": (True if mx <= k else False if k < 0 else None),
               ">": (False if mx <= k else True if k < 0 else None), ">=": (False if mx < k else True if k <= 0 else None),
               "==": (False if k > mx or k < 0 else None), "!=": (True if k > mx or k < 0 else None)}[sym]
        if dec is not None:
            return dec
        return self.test(self.to_lin(x, run) - k, sym, run)

    def refresh(self, v: Any, run: Run) -> Any:
        """a value computed from an unbounded field before a guard bounded the field: cut the tail at the bound."""
        if isinstance(v, BV) and v.tail is not None and v.tail != TOP:
            name, start = v.tail[1], v.tail[2]
            lo, hi = run.field_range.get(name, (-INF, INF))
            if lo >= 0 and hi != INF:
                w = int(hi).bit_length()
                return BV(v.bits + tuple(Src("f", name, i) for i in range(start, w)))
        return v

    def field_value(self, name: str, run: Run) -> BV:
        """`self.<int field>` on the writer side: bounded by the guards seen so far."""
        lo, hi = run.field_range.get(name, (-INF, INF))
        if lo >= 0 and hi != INF:
            run.nonneg.add(name)
            return BV(tuple(Src("f", name, i) for i in range(int(hi).bit_length())))
        return BV((), ("f", name, 0))

    def expr(self, e: ast.AST | None, env: dict, run: Run) -> Any:
        if e is None:
            return None
        if isinstance(e, ast.Constant):
            v = e.value
            if isinstance(v, bytes):
                return Bytes(tuple(BV.const(x) for x in v))
            return v
        if isinstance(e, ast.Name):
            if e.id in env:
                v = env[e.id]
                if isinstance(v, _FieldRef):
                    return self.field_value(v.name, run)
                return self.refresh(v, run)
            v = self.repo.fold(e, env["#mod"], None)
            if v is not NOFOLD:
                return self.lift(v)
            t = self.repo.resolve(env["#mod"].name, e.id)
            if isinstance(t, (ClassInfo, FuncInfo)):
                return t
            if e.id in ("True", "False", "None"):
                return {"True": True, "False": False, "None": None}[e.id]
            raise Unsupported(f"name {e.id}")
        if isinstance(e, ast.Attribute):
            # constants first (Class.CONST, Enum.MEMBER(.value), self.CONST)
            if not (isinstance(e.value, ast.Name) and e.value.id in env and not str(e.value.id).startswith("#") and e.value.id not in ("self", "cls")):
                v = self.repo.fold(e, env["#mod"], env.get("#cls"))
                if v is not NOFOLD:
                    return self.lift(v)
            if isinstance(e.value, ast.Call) and isinstance(e.value.func, ast.Name) and e.value.func.id == "super" and not e.value.args:
                fi_ = env.get("#fi")
                ctx_ = env.get("#cls")
                if fi_ is None or fi_.cls is None or ctx_ is None:
                    raise Unsupported("super() outside a method")
                mro = self.repo.mro(ctx_)
                for b_ in mro[mro.index(fi_.cls) + 1:] if fi_.cls in mro else []:
                    if e.attr in b_.methods:
                        return ("#bound", b_.methods[e.attr], env.get("self"), ctx_)
                raise Unsupported(f"super().{e.attr} not found")
            base = self.expr(e.value, env, run)
            if isinstance(base, tuple) and len(base) == 2 and base[0] == "#class":
                v = self.repo.const(base[1], e.attr)
                if v is not NOFOLD:
                    return self.lift(v)
                hit_ = self.repo.class_attr_expr(base[1], e.attr)
                if hit_ is not None:
                    t_ = self.repo.resolve_expr(hit_[1].module, hit_[0])
                    if isinstance(t_, ClassInfo):
                        return t_
                m = self.repo.lookup_method(base[1], e.attr)
                if m is not None:
                    return ("#bound", m, None, base[1])
            if isinstance(base, Obj):
                if e.attr in base.fields:
                    v = base.fields[e.attr]
                    if isinstance(v, _FieldRef):
                        return self.field_value(v.name, run)
                    return v
                if base.ci is not None:
                    v = self.repo.const(base.ci, e.attr)
                    if v is not NOFOLD:
                        return self.lift(v)
                    m = self.repo.lookup_method(base.ci, e.attr)
                    if m is not None:
                        if "property" in m.decorators:
                            return self.call_function(m, [], {}, run, self_val=base, ctx=base.ci)
                        return ("#bound", m, base, base.ci)
                if base.cls in ("IndividualAddress", "GroupAddress") and e.attr in ("to_knx",):
                    return ("#addr_to_knx", base)
                raise Unsupported(f"attribute {e.attr} of {base.cls}")
            if isinstance(base, EnumV):
                if e.attr == "value":
                    return base.value
                if e.attr == "name":
                    return "<enum name>"
            if isinstance(base, ClassInfo):
                v = self.repo.const(base, e.attr)
                if v is not NOFOLD:
                    return self.lift(v)
                m = self.repo.lookup_method(base, e.attr)
                if m is not None:
                    return ("#bound", m, None, base)
            if isinstance(base, (Bytes, BV, Lin, int)) or base is None:
                return ("#meth", base, e.attr)
            raise Unsupported(f"attribute {ast.unparse(e)}")
        if isinstance(e, ast.BinOp):
            return self.binop(e.op, self.expr(e.left, env, run), self.expr(e.right, env, run), run)
        if isinstance(e, ast.UnaryOp):
            v = self.expr(e.operand, env, run)
            if isinstance(e.op, ast.Not):
                return not self.truth(v, run, ast.unparse(e)[:40])
            if isinstance(e.op, ast.USub) and isinstance(v, int):
                return -v
            raise Unsupported("unary operator")
        if isinstance(e, ast.BoolOp):
            res: Any = None
            for x in e.values:
                res = self.expr(x, env, run)
                t = self.truth(res, run, ast.unparse(x)[:40])
                if isinstance(e.op, ast.And) and not t:
                    return res if not isinstance(res, (BV, Lin, Bytes)) else False
                if isinstance(e.op, ast.Or) and t:
                    return res if not isinstance(res, (BV, Lin, Bytes)) else True
            return res if not isinstance(res, (BV, Lin, Bytes)) else (isinstance(e.op, ast.And))
        if isinstance(e, ast.Compare):
            left = self.expr(e.left, env, run)
            for op, c in zip(e.ops, e.comparators):
                right = self.expr(c, env, run)
                if not self.compare(op, left, right, run):
                    return False
                left = right
            return True
        if isinstance(e, ast.IfExp):
            tv = self.expr(e.test, env, run)
            if isinstance(tv, BV) and not tv.is_const() and tv.tail is None and len(tv.bits) == 1 and isinstance(tv.bits[0], Src):
                a, b = self.expr(e.body, env, run), self.expr(e.orelse, env, run)
                if isinstance(a, (int, BV)) and isinstance(b, (int, BV)) and not isinstance(a, bool) and not isinstance(b, bool):
                    x, y = self.to_bv(a, run), self.to_bv(b, run)
                    if x.is_const() and y.is_const():
                        n = max(len(x.bits), len(y.bits))
                        bits = []
                        for i in range(n):
                            p, q = x.bit(i), y.bit(i)
                            bits.append(p if p == q else (tv.bits[0] if (p, q) == (1, 0) else TOP))
                        return BV(tuple(bits))
            return self.expr(e.body, env, run) if self.truth(tv, run, ast.unparse(e.test)[:40]) else self.expr(e.orelse, env, run)
        if isinstance(e, ast.Dict):
            d: dict = {}
            for k_, v_ in zip(e.keys, e.values):
                if k_ is None:
                    inner_ = self.expr(v_, env, run)
                    if not isinstance(inner_, dict):
                        raise Unsupported("** of a non-dict")
                    d.update(inner_)
                else:
                    kk = self.expr(k_, env, run)
                    if not isinstance(kk, str):
                        raise Unsupported("dict with non-text keys")
                    d[kk] = self.expr(v_, env, run)
            return d
        if isinstance(e, (ast.Tuple, ast.List)):
            items: list = []
            for x in e.elts:
                if isinstance(x, ast.Starred):
                    inner_ = self.expr(x.value, env, run)
                    if isinstance(inner_, Bytes):
                        n_ = self.length(inner_, run)
                        if not n_.is_const():
                            raise Unsupported("unpacking a byte string of symbolic length")
                        items += [self.index(inner_, i, run) for i in range(n_.c)]
                    elif isinstance(inner_, (tuple, list)):
                        items += list(inner_)
                    else:
                        raise Unsupported(f"unpacking {inner_!r}")
                else:
                    items.append(self.expr(x, env, run))
            return Tup(items) if isinstance(e, ast.Tuple) else items
        if isinstance(e, ast.Subscript):
            base = self.expr(e.value, env, run)
            if isinstance(base, dict):
                kk = self.expr(e.slice, env, run)
                if kk not in base:
                    raise AbstractRaise("KeyError", f"key {kk!r}")
                return base[kk]
            if isinstance(base, (tuple, list)):
                i = self.expr(e.slice, env, run)
                if isinstance(e.slice, ast.Slice):
                    raise Unsupported("slice of a tuple")
                return base[i if isinstance(i, int) else self.to_lin(i, run).c]
            if isinstance(base, Bytes):
                if isinstance(e.slice, ast.Slice):
                    if e.slice.step is not None:
                        raise Unsupported("slice step")
                    lo = self.to_lin(self.expr(e.slice.lower, env, run), run) if e.slice.lower is not None else None
                    hi = self.to_lin(self.expr(e.slice.upper, env, run), run) if e.slice.upper is not None else None
                    return self.slice_(base, lo, hi, run)
                i = run.cons.norm(self.to_lin(self.expr(e.slice, env, run), run))
                if not i.is_const():
                    raise Unsupported("symbolic index")
                return self.index(base, i.c, run)
            raise Unsupported(f"subscript of {base!r}")
        if isinstance(e, ast.Call):
            return self.call(e, env, run)
        if isinstance(e, ast.JoinedStr):
            return "<text>"
        if isinstance(e, (ast.ListComp, ast.GeneratorExp)):
            return self.comprehension(e, env, run)
        raise Unsupported(f"expression {type(e).__name__}")

    def lift(self, v: Any) -> Any:
        if isinstance(v, EnumMember):
            return EnumV(v.enum, BV.const(v.value)) if isinstance(v.value, int) else v
        if isinstance(v, bytes):
            return Bytes(tuple(BV.const(x) for x in v))
        if isinstance(v, tuple):
            return Tup(self.lift(x) for x in v)
        return v

    def comprehension(self, e: ast.AST, env: dict, run: Run) -> Any:
        # [K.from_knx(raw[i:i + s]) for i in range(a, len(raw), s)]
        if len(e.generators) == 1 and not e.generators[0].ifs:  # type: ignore[attr-defined]
            g = e.generators[0]  # type: ignore[attr-defined]
            it = g.iter
            if isinstance(it, ast.Call) and ast.unparse(it.func) == "range" and len(it.args) == 3 and isinstance(g.target, ast.Name):
                a = self.to_lin(self.expr(it.args[0], env, run), run)
                end = self.expr(it.args[1], env, run)
                s = self.expr(it.args[2], env, run)
                elt = e.elt  # type: ignore[attr-defined]
                if isinstance(s, int) and isinstance(elt, ast.Call) and ast.unparse(elt.func).endswith(".from_knx") and len(elt.args) == 1 and isinstance(elt.args[0], ast.Subscript):
                    sub = elt.args[0]
                    iv = g.target.id
                    if isinstance(sub.slice, ast.Slice) and ast.unparse(sub.slice.lower) == iv and ast.unparse(sub.slice.upper) == f"{iv} + {s}":
                        base = self.expr(sub.value, env, run)
                        blob = self.slice_(base, a, self.to_lin(end, run), run)
                        ln = self.length(blob, run)
                        if not all(v % s == 0 for v in ln.t.values()) or ln.c % s:
                            raise Unsupported(f"stride list over a blob of length {ln} not known to be a multiple of {s}")
                        kname = ast.unparse(elt.func)[: -len(".from_knx")]
                        return ListV(kname, s, blob, Lin(ln.c // s, {k: v // s for k, v in ln.t.items()}))
            # (x.to_knx() for x in LIST)
            if isinstance(e.elt, ast.Call) and isinstance(e.elt.func, ast.Attribute) and e.elt.func.attr == "to_knx" and isinstance(e.elt.func.value, ast.Name) and isinstance(g.target, ast.Name) and e.elt.func.value.id == g.target.id:  # type: ignore[attr-defined]
                lst = self.expr(it, env, run)
                if isinstance(lst, ListV):
                    return ("#pieces", lst)
        raise Unsupported("comprehension")

    # ---------------------------------------------------------------- calls
    def call(self, c: ast.Call, env: dict, run: Run) -> Any:
        fn = ast.unparse(c.func)
        if fn == "len" and len(c.args) == 1:
            v = self.expr(c.args[0], env, run)
            if isinstance(v, Bytes):
                return self.length(v, run)
            if isinstance(v, ListV):
                return v.n
            if isinstance(v, Obj) and v.ci is not None:
                m = self.repo.lookup_method(v.ci, "__len__")
                if m is not None:
                    return self.call_function(m, [], {}, run, self_val=v, ctx=v.ci)
            if isinstance(v, (tuple, list)):
                return len(v)
            raise Unsupported(f"len of {v!r}")
        if fn in ("struct.unpack", "struct.pack"):
            fmt = self.fmt_of(c.args[0], env, run)
            vals = [self.expr(a, env, run) for a in c.args[1:]]
            if fn == "struct.unpack":
                return self.unpack(fmt, self.as_bytes(vals[0], run), run)
            return self.pack(fmt, vals, run)
        if fn == "isinstance":
            v = self.expr(c.args[0], env, run)
            names = []
            for x in (c.args[1].elts if isinstance(c.args[1], ast.Tuple) else [c.args[1]]):
                nm = ast.unparse(x).split(".")[-1]
                try:
                    tv_ = self.expr(x, env, run) if not (isinstance(x, ast.Name) and x.id in ("int", "float", "str", "bytes", "bool", "tuple", "list", "dict", "bytearray")) else None
                except Unsupported:
                    tv_ = None
                if isinstance(tv_, tuple) and len(tv_) == 2 and tv_[0] == "#class":
                    tv_ = tv_[1]
                names.append(tv_.name if isinstance(tv_, ClassInfo) else nm)
            if isinstance(v, EnumV):
                ecls = v.enum.split(":")[-1]
                ci_ = next((k for k in self.by_name.get(ecls, [])), None)
                return ecls in names or (ci_ is not None and any(k.name in names for k in self.repo.mro(ci_))) or ("int" in names and ci_ is not None and "IntEnum" in self.repo.ext_base_names(ci_))
            if isinstance(v, (StrV, str)):
                return "str" in names
            if isinstance(v, Obj):
                return v.cls in names or any(k.name in names for k in (self.repo.mro(v.ci) if v.ci else []))
            if isinstance(v, (BV, Lin, SBV)) or (isinstance(v, int) and not isinstance(v, bool)):
                return "int" in names
            if isinstance(v, bool):
                return "bool" in names or "int" in names
            if isinstance(v, float):
                return "float" in names
            if isinstance(v, Bytes):
                return "bytes" in names or "bytearray" in names
            if isinstance(v, tuple):
                return "tuple" in names
            if v is None:
                return False
            raise Unsupported("isinstance of an abstract value")
        if fn in ("all", "any") and len(c.args) == 1 and isinstance(c.args[0], (ast.GeneratorExp, ast.ListComp)) and len(c.args[0].generators) == 1 and not c.args[0].generators[0].ifs:
            # all(isinstance(x, int) for x in <payload octets>): the elements of a symbolic payload are octets
            g = c.args[0].generators[0]
            elt = c.args[0].elt
            if isinstance(g.target, ast.Name) and isinstance(elt, ast.Call) and ast.unparse(elt.func) == "isinstance" and len(elt.args) == 2 and isinstance(elt.args[0], ast.Name) and elt.args[0].id == g.target.id and ast.unparse(elt.args[1]) == "int":
                seq = self.expr(g.iter, env, run)
                if isinstance(seq, Bytes):
                    return True
                if isinstance(seq, Tup) and all(isinstance(x, (BV, SBV, Lin)) or (isinstance(x, int) and not isinstance(x, bool)) for x in seq):
                    return True
            raise Unsupported(f"{fn}() over a comprehension")
        if fn == "bool":
            v = self.expr(c.args[0], env, run)
            if isinstance(v, BV) and not v.is_const():
                nz = [b for b in v.bits if b != 0]
                if v.tail is None and len(nz) == 1:
                    return BV((nz[0],))
                raise Unsupported("bool() of a multi-bit symbolic value")
            return self.truth(v, run)
        if fn in ("bytes", "bytearray"):
            if not c.args:
                return Bytes()
            v = self.expr(c.args[0], env, run)
            if isinstance(v, Bytes):
                return v
            if isinstance(v, (tuple, list)):
                return Bytes(tuple(self.fit(x, 8, run, "bytes([..]) element").take(8) for x in v))
            if isinstance(v, int) and not isinstance(v, bool):
                return Bytes(tuple(BV() for _ in range(v)))
            if isinstance(v, Lin):
                return Bytes((Blob(("zeros",), Lin(0), v),))
            raise Unsupported(f"bytes({v!r})")
        if fn == "int.from_bytes":
            b = self.as_bytes(self.expr(c.args[0], env, run), run)
            n = self.length(b, run)
            if not n.is_const():
                raise Unsupported("int.from_bytes of variable length")
            bits: tuple = ()
            for i in reversed(range(n.c)):
                o = self.index(b, i, run).take(8)
                bits = bits + o.bits + (0,) * (8 - len(o.bits))
            return BV(bits)
        if fn in ("cast",):
            return self.expr(c.args[1], env, run)
        if fn == "int" and len(c.args) == 1:
            v = self.expr(c.args[0], env, run)
            if isinstance(v, SBV):
                return v
            if isinstance(v, (BV, Lin, int, EnumV)) and not isinstance(v, bool):
                return v.value if isinstance(v, EnumV) else v
            if isinstance(v, bool):
                return int(v)
            raise Unsupported(f"int({v!r})")
        if fn in INVERSE_PAIRS and len(c.args) == 1:
            v = self.expr(c.args[0], env, run)
            if isinstance(v, str):
                try:
                    import socket as _s
                    return Bytes(tuple(BV.const(x) for x in _s.inet_aton(v)))
                except OSError:
                    raise AbstractRaise("OSError", "invalid address literal") from None
            if isinstance(v, StrV):
                n = INVERSE_PAIRS[fn][1]
                return Bytes((Blob(("t", fn, v.name), Lin(0), Lin(n)),))
            raise Unsupported(f"{fn} of {v!r}")
        if fn in {inv for inv, _ in INVERSE_PAIRS.values()} and len(c.args) == 1:
            b = self.norm_bytes(self.as_bytes(self.expr(c.args[0], env, run), run), run)
            fwd, n = next((k, vv[1]) for k, vv in INVERSE_PAIRS.items() if vv[0] == fn)
            if not self.test(self.length(b, run) - n, "==", run):
                raise AbstractRaise("OSError", f"{fn} needs {n} octets")
            if len(b.parts) == 1 and isinstance(b.parts[0], Blob) and b.parts[0].origin[:2] == ("t", fwd) and b.parts[0].lo == Lin(0) and b.parts[0].hi == Lin(n):
                return StrV(b.parts[0].origin[2])
            if all(isinstance(p, BV) and p.is_const() for p in b.parts):
                import socket as _s
                return _s.inet_ntoa(bytes(p.value() for p in b.parts))
            return StrV(f"{fn}({b!r})")
        f = c.func
        args = [self.expr(a, env, run) for a in c.args]
        kwargs = {k.arg: self.expr(k.value, env, run) for k in c.keywords if k.arg}
        for k in c.keywords:
            if k.arg is None:
                extra_ = self.expr(k.value, env, run)
                if not isinstance(extra_, dict):
                    raise Unsupported("** of a non-dict")
                kwargs.update(extra_)
        if isinstance(f, ast.Attribute) and f.attr == "join":
            sep = self.expr(f.value, env, run)
            if isinstance(sep, Bytes) and not sep.parts and args and isinstance(args[0], tuple) and args[0][0] == "#pieces":
                lst: ListV = args[0][1]
                return lst.blob
            raise Unsupported("join")
        target = self.expr(f, env, run)
        if isinstance(target, tuple) and target and target[0] == "#meth":
            _, base, attr = target
            if attr == "hex":
                return "<hex>"
            if attr == "to_bytes" and args:
                n = args[0]
                bv = self.fit(base, 8 * n, run, f"to_bytes({n})")
                return Bytes(tuple(bv.shr(8 * i).take(8) for i in reversed(range(n))))
            if attr == "extend" and isinstance(base, Bytes):
                raise Unsupported("bytearray.extend outside encode_cmd_and_payload model")
            raise Unsupported(f"method {attr}")
        if isinstance(target, tuple) and target and target[0] == "#addr_to_knx":
            bv = target[1].fields["raw"]
            bv = self.fit(bv, 16, run, "address.to_knx()")
            return Bytes((bv.shr(8).take(8), bv.take(8)))
        if isinstance(target, tuple) and target and target[0] == "#bound":
            _, m, selfv, ctx = target
            if m.name == "from_knx" and ctx.name in ("IndividualAddress", "GroupAddress"):
                b = self.as_bytes(args[0], run)
                octs = self.explode(b, 2, run)
                return Obj(ctx.name, {"raw": BV(octs[1].take(8).bits + (0,) * (8 - len(octs[1].take(8).bits)) + octs[0].take(8).bits)}, ctx)
            if m.name == "to_knx" and ctx.name in ("IndividualAddress", "GroupAddress") and isinstance(selfv, Obj):
                bv = self.fit(selfv.fields["raw"], 16, run, "address.to_knx()")
                return Bytes((bv.shr(8).take(8), bv.take(8)))
            return self.call_function(m, args, kwargs, run, self_val=selfv, ctx=ctx)
        if isinstance(target, tuple) and len(target) == 3 and target[0] == "#closure":
            _, node, outer = target
            names = [x.arg for x in node.args.args]
            inner = dict(outer)
            for i, n_ in enumerate(names):
                if i < len(args):
                    inner[n_] = args[i]
                elif n_ in kwargs:
                    inner[n_] = kwargs[n_]
                else:
                    raise Unsupported(f"closure {node.name}: missing argument {n_}")
            run.depth += 1
            try:
                if run.depth > 12:
                    raise Unsupported("inlining depth")
                self.block(node.body, inner, run)
            except _Return as r:
                return r.value
            finally:
                run.depth -= 1
            return None
        if isinstance(target, tuple) and len(target) == 2 and target[0] == "#class":
            return self.construct(target[1], args, kwargs, run)
        if isinstance(target, ClassInfo):
            return self.construct(target, args, kwargs, run)
        if isinstance(target, FuncInfo):
            if target.name == "encode_cmd_and_payload":
                return self.encode_cmd(target, args, kwargs, run)
            return self.call_function(target, args, kwargs, run)
        raise Unsupported(f"call {fn}")

    def as_bytes(self, v: Any, run: Run) -> Bytes:
        if isinstance(v, Bytes):
            return v
        raise Unsupported(f"expected bytes, got {v!r}")

    def encode_cmd(self, fi: FuncInfo, args: list, kwargs: dict, run: Run) -> Bytes:
        """encode_cmd_and_payload: evaluated from its own source, with `bytearray([...])` / `.extend` understood."""
        a = fi.node.args
        names = [x.arg for x in a.args]
        vals: dict = {}
        for i, n in enumerate(names):
            if i < len(args):
                vals[n] = args[i]
            elif n in kwargs:
                vals[n] = kwargs[n]
            else:
                d = a.defaults[i - (len(names) - len(a.defaults))]
                vals[n] = self.expr(d, {"#mod": fi.module}, run)
        env = {"#mod": fi.module, "#cls": None, **vals}
        data = None
        for st in fi.node.body:
            if isinstance(st, ast.Expr) and isinstance(st.value, ast.Constant):
                continue
            if isinstance(st, ast.Assign) and isinstance(st.value, ast.Call) and ast.unparse(st.value.func) == "bytearray":
                data = self.expr(st.value, env, run)
                env[st.targets[0].id] = data  # type: ignore[attr-defined]
            elif isinstance(st, ast.If) and len(st.body) == 1 and isinstance(st.body[0], ast.Expr) and isinstance(st.body[0].value, ast.Call) and ast.unparse(st.body[0].value.func).endswith(".extend") and not st.orelse:
                tv = self.expr(st.test, env, run)
                # `if appended_payload:` — an empty payload extends by nothing either way
                if tv is not None and not (isinstance(tv, Bytes) and not tv.parts):
                    ext = self.as_bytes(self.expr(st.body[0].value.args[0], env, run), run)
                    name = ast.unparse(st.body[0].value.func.value)  # type: ignore[attr-defined]
                    env[name] = self.norm_bytes(Bytes(env[name].parts + ext.parts), run)
            elif isinstance(st, ast.Return):
                return self.as_bytes(self.expr(st.value, env, run), run)
            else:
                raise Unsupported("encode_cmd_and_payload changed shape")
        raise Unsupported("encode_cmd_and_payload without return")


class _Continue(Exception):
    pass


class _Return(Exception):
    def __init__(self, value: Any) -> None:
        super().__init__("return")
        self.value = value


@dataclass(frozen=True)
class _FieldRef:
    name: str
