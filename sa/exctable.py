"""Exception class hierarchy: repo classes from the class table + the builtins the repo meets."""

from __future__ import annotations

from .loader import ClassInfo, Repo

BUILTIN_PARENT = {
    "BaseException": None,
    "Exception": "BaseException",
    "CancelledError": "BaseException",
    "KeyboardInterrupt": "BaseException",
    "GeneratorExit": "BaseException",
    "SystemExit": "BaseException",
    "ArithmeticError": "Exception",
    "OverflowError": "ArithmeticError",
    "ZeroDivisionError": "ArithmeticError",
    "FloatingPointError": "ArithmeticError",
    "AssertionError": "Exception",
    "AttributeError": "Exception",
    "LookupError": "Exception",
    "IndexError": "LookupError",
    "KeyError": "LookupError",
    "NameError": "Exception",
    "UnboundLocalError": "NameError",
    "OSError": "Exception",
    "ConnectionError": "OSError",
    "ConnectionResetError": "ConnectionError",
    "ConnectionRefusedError": "ConnectionError",
    "BrokenPipeError": "ConnectionError",
    "TimeoutError": "OSError",
    "FileNotFoundError": "OSError",
    "RuntimeError": "Exception",
    "RecursionError": "RuntimeError",
    "NotImplementedError": "RuntimeError",
    "InvalidStateError": "Exception",
    "StopIteration": "Exception",
    "StopAsyncIteration": "Exception",
    "TypeError": "Exception",
    "ValueError": "Exception",
    "UnicodeError": "ValueError",
    "UnicodeDecodeError": "UnicodeError",
    "UnicodeEncodeError": "UnicodeError",
    "error": "Exception",  # struct.error
    "struct.error": "Exception",
    "InvalidTag": "Exception",  # cryptography
    "InvalidSignature": "Exception",
    "ExpatError": "Exception",
    "SAXException": "Exception",
    "SAXParseException": "SAXException",
    "QueueFull": "Exception",
    "QueueEmpty": "Exception",
    "JSONDecodeError": "ValueError",
}


class ExcTable:
    def __init__(self, repo: Repo) -> None:
        self.repo = repo
        self.by_name: dict[str, ClassInfo] = {}
        for ci in repo.all_classes():
            exts = repo.ext_base_names(ci)
            if any(e.split(".")[-1] in BUILTIN_PARENT for e in exts):
                self.by_name.setdefault(ci.name, ci)

    def ancestors(self, name: str) -> list[str]:
        name = name.split(".")[-1] if name != "struct.error" else "error"
        out: list[str] = []
        if name in self.by_name:
            ci = self.by_name[name]
            for c in self.repo.mro(ci):
                out.append(c.name)
                for e in c.ext_bases:
                    out += [x for x in self.ancestors(e) if x not in out]
            return out
        cur: str | None = name
        while cur is not None:
            out.append(cur)
            cur = BUILTIN_PARENT.get(cur, "Exception" if cur not in ("BaseException",) and cur not in BUILTIN_PARENT else None)
            if cur in out:
                break
        return out

    def is_subclass(self, name: str, of: str) -> bool:
        of = of.split(".")[-1]
        return of in self.ancestors(name)

    def known(self, name: str) -> bool:
        n = name.split(".")[-1]
        return n in self.by_name or n in BUILTIN_PARENT
