"""Interval abstract interpretation of small numeric encoder bodies (E8 support for C09).

Values are closed real intervals (lo, hi) with an `integral` flag, constants, or TOP.  Statements: assignment, `if`
(refining on comparisons with constants, both branches explored when the interval straddles), `raise`, `return`,
`try/except`, augmented assignment; `while` loops are not interpreted (the client handles the one float-16 search
loop by its own rule).  Each path ends in ('return', packed description) or ('raise', exception name).
Nothing of the repository runs: the interpreter evaluates the AST over intervals only.
"""

from __future__ import annotations

import ast
import math
from dataclasses import dataclass
from typing import Any

from .loader import NOFOLD, ClassInfo, FuncInfo, Repo

INF = float("inf")


class NotInFragment(Exception):
    pass


@dataclass(frozen=True)
class Iv:
    lo: float
    hi: float
    integral: bool = False

    def __repr__(self) -> str:
        return f"[{self.lo}, {self.hi}]{'ℤ' if self.integral else ''}"


TOPV = "TOP"


@dataclass
class Outcome:
    kind: str  # 'return' | 'raise'
    detail: Any
    env: dict
    conds: list


class IntervalEval:
    def __init__(self, repo: Repo, fi: FuncInfo, ctx: ClassInfo) -> None:
        self.repo = repo
        self.fi = fi
        self.ctx = ctx

    # ------------------------------------------------------------------ expressions
    def const(self, e: ast.AST) -> Any:
        v = self.repo.fold(e, self.fi.module, self.ctx)  # type: ignore[arg-type]
        if v is NOFOLD and isinstance(e, ast.Attribute) and isinstance(e.value, ast.Name) and e.value.id in ("cls", "self"):
            v = self.repo.const(self.ctx, e.attr)
        return v

    def ev(self, e: ast.AST, env: dict) -> Any:
        c = self.const(e)
        if isinstance(c, bool):
            return c
        if isinstance(c, (int, float)):
            return Iv(c, c, isinstance(c, int))
        if isinstance(c, str):
            return c
        if isinstance(e, ast.Name):
            if e.id in env:
                return env[e.id]
            raise NotInFragment(f"name {e.id}")
        if isinstance(e, ast.Call):
            fn = ast.unparse(e.func)
            if fn == "isinstance" and len(e.args) == 2 and isinstance(e.args[1], ast.Name) and e.args[1].id in ("float", "int"):
                v = self.ev(e.args[0], env)
                if isinstance(v, Iv):
                    has_int = math.ceil(v.lo) <= math.floor(v.hi) if v.lo != -INF and v.hi != INF else True
                    is_float = False if v.integral else (True if not has_int else None)
                    if is_float is None:
                        return Iv(0, 1, True)  # undecided truth value
                    return (is_float if e.args[1].id == "float" else not is_float)
                raise NotInFragment("isinstance of a non-interval")
            args = [self.ev(a, env) for a in e.args]
            if fn == "float" and len(args) == 1 and isinstance(args[0], Iv):
                return Iv(args[0].lo, args[0].hi, False)
            if fn == "int" and len(args) == 1 and isinstance(args[0], Iv):
                a = args[0]
                if a.lo == -INF or a.hi == INF:
                    return Iv(-INF if a.lo == -INF else math.trunc(a.lo), INF if a.hi == INF else math.trunc(a.hi), True)
                return Iv(math.trunc(a.lo), math.trunc(a.hi), True)
            if fn == "round" and len(args) == 1 and isinstance(args[0], Iv):
                a = args[0]
                return Iv(-INF if a.lo == -INF else round(a.lo), INF if a.hi == INF else round(a.hi), True)
            if fn == "abs" and len(args) == 1 and isinstance(args[0], Iv):
                a = args[0]
                lo = 0 if a.lo <= 0 <= a.hi else min(abs(a.lo), abs(a.hi))
                return Iv(lo, max(abs(a.lo), abs(a.hi)), a.integral)
            if fn in ("min", "max") and len(args) >= 2 and all(isinstance(a, Iv) for a in args):
                pick = min if fn == "min" else max
                return Iv(pick(a.lo for a in args), pick(a.hi for a in args), all(a.integral for a in args))
            if fn in ("cls._test_boundaries", "self._test_boundaries") and len(args) == 1:
                m = self.repo.lookup_method(self.ctx, "_test_boundaries")
                if m is None:
                    raise NotInFragment("_test_boundaries not found")
                rets = [n for n in ast.walk(m.node) if isinstance(n, ast.Return)]
                if len(rets) != 1:
                    raise NotInFragment("_test_boundaries shape")
                pname = m.node.args.args[1].arg
                return ("cmp", rets[0].value, {pname: args[0]})
            if fn in ("DPTArray", "struct.pack", "bytes", "tuple"):
                return ("pack", fn, [a for a in e.args], dict(env))
            raise NotInFragment(f"call {fn}")
        if isinstance(e, ast.BinOp):
            a, b = self.ev(e.left, env), self.ev(e.right, env)
            if not (isinstance(a, Iv) and isinstance(b, Iv)):
                return TOPV
            op = e.op
            if isinstance(op, ast.Add):
                return Iv(a.lo + b.lo, a.hi + b.hi, a.integral and b.integral)
            if isinstance(op, ast.Sub):
                return Iv(a.lo - b.hi, a.hi - b.lo, a.integral and b.integral)
            if isinstance(op, ast.Mult):
                ps = [x * y for x in (a.lo, a.hi) for y in (b.lo, b.hi) if not (x in (INF, -INF) and y == 0) and not (y in (INF, -INF) and x == 0)]
                return Iv(min(ps), max(ps), a.integral and b.integral)
            if isinstance(op, (ast.Div, ast.FloorDiv)):
                if b.lo <= 0 <= b.hi:
                    return TOPV
                ps = [x / y for x in (a.lo, a.hi) for y in (b.lo, b.hi)]
                lo, hi = min(ps), max(ps)
                if isinstance(op, ast.FloorDiv):
                    return Iv(-INF if lo == -INF else math.floor(lo), INF if hi == INF else math.floor(hi), a.integral and b.integral)
                return Iv(lo, hi, False)
            if isinstance(op, ast.BitAnd) and b.lo == b.hi and b.integral and a.integral:
                m = int(b.lo)
                if 0 <= a.lo and a.hi <= m and (m & (m + 1)) == 0:
                    return a
                return Iv(0, m, True)
            if isinstance(op, ast.RShift) and b.lo == b.hi and a.integral and a.lo >= 0:
                k = int(b.lo)
                return Iv(int(a.lo) >> k, (int(a.hi) >> k) if a.hi != INF else INF, True)
            if isinstance(op, ast.LShift) and b.lo == b.hi and a.integral and a.lo >= 0:
                k = int(b.lo)
                return Iv(int(a.lo) << k, (int(a.hi) << k) if a.hi != INF else INF, True)
            if isinstance(op, ast.BitOr) and a.integral and b.integral and a.lo >= 0 and b.lo >= 0 and a.hi != INF and b.hi != INF:
                return Iv(0, (1 << max(int(a.hi).bit_length(), int(b.hi).bit_length())) - 1, True)
            return TOPV
        if isinstance(e, ast.UnaryOp) and isinstance(e.op, ast.USub):
            a = self.ev(e.operand, env)
            return Iv(-a.hi, -a.lo, a.integral) if isinstance(a, Iv) else TOPV
        if isinstance(e, ast.UnaryOp) and isinstance(e.op, ast.Not):
            return ("not", self.ev(e.operand, env))
        if isinstance(e, ast.Compare):
            return ("cmp", e, dict(env))
        if isinstance(e, ast.BoolOp):
            return ("and" if isinstance(e.op, ast.And) else "or", [self.ev(v, env) for v in e.values])
        if isinstance(e, ast.Tuple):
            return ("pack", "tuple", list(e.elts), dict(env))
        if isinstance(e, ast.Attribute):
            raise NotInFragment(f"attribute {ast.unparse(e)}")
        raise NotInFragment(f"expression {type(e).__name__}")

    # ------------------------------------------------------------------ tests
    def decide(self, t: Any, env: dict) -> tuple[bool | None, list]:
        """(truth, refinements) — refinements: list of (truth, env') alternatives when undecided."""
        if isinstance(t, bool):
            return t, []
        if isinstance(t, tuple) and t[0] == "not":
            r, alts = self.decide(t[1], env)
            return (None if r is None else (not r)), [((not tv), e2) for tv, e2 in alts]
        if isinstance(t, tuple) and t[0] == "cmp":
            node, e0 = t[1], t[2]
            return self.decide_compare(node, {**env, **e0}, env, e0)
        if isinstance(t, tuple) and t[0] in ("and", "or"):
            rs = [self.decide(x, env)[0] for x in t[1]]
            if t[0] == "or":
                r = True if any(x is True for x in rs) else (False if all(x is False for x in rs) else None)
            else:
                r = False if any(x is False for x in rs) else (True if all(x is True for x in rs) else None)
            return r, ([] if r is not None else [(True, env), (False, env)])
        if isinstance(t, Iv):
            if t.lo == t.hi == 0:
                return False, []
            if t.lo > 0 or t.hi < 0:
                return True, []
            return None, [(True, env), (False, env)]
        raise NotInFragment(f"test {t!r}")

    def decide_compare(self, node: ast.Compare, scope: dict, env: dict, alias: dict) -> tuple[bool | None, list]:
        """chained comparison of intervals with constants; refines a single variable when it is the only non-constant."""
        vals = [self.ev(node.left, scope)] + [self.ev(c, scope) for c in node.comparators]
        ops = node.ops
        if not all(isinstance(v, Iv) for v in vals):
            return None, [(True, env), (False, env)]
        results = []
        for (a, op, b) in zip(vals, ops, vals[1:]):
            if isinstance(op, ast.LtE):
                r = True if a.hi <= b.lo else (False if a.lo > b.hi else None)
            elif isinstance(op, ast.Lt):
                r = True if a.hi < b.lo else (False if a.lo >= b.hi else None)
            elif isinstance(op, ast.GtE):
                r = True if a.lo >= b.hi else (False if a.hi < b.lo else None)
            elif isinstance(op, ast.Gt):
                r = True if a.lo > b.hi else (False if a.hi <= b.lo else None)
            elif isinstance(op, ast.Eq):
                r = True if a.lo == a.hi == b.lo == b.hi else (False if a.hi < b.lo or a.lo > b.hi else None)
            elif isinstance(op, ast.NotEq):
                r = False if a.lo == a.hi == b.lo == b.hi else (True if a.hi < b.lo or a.lo > b.hi else None)
            else:
                raise NotInFragment("comparison operator")
            results.append(r)
        if all(r is True for r in results):
            return True, []
        if any(r is False for r in results):
            return False, []
        return None, [(True, env), (False, env)]

    # ------------------------------------------------------------------ statements
    def run(self, env: dict) -> list[Outcome]:
        outs: list[Outcome] = []
        self._block(self.fi.node.body, dict(env), [], outs, handlers=[])
        return outs

    def _block(self, stmts: list, env: dict, conds: list, outs: list, handlers: list) -> list[tuple[dict, list]]:
        """returns the fall-through states"""
        states = [(env, conds)]
        for st in stmts:
            nxt: list = []
            for e, c in states:
                nxt += self._stmt(st, e, c, outs, handlers)
            states = nxt
            if not states:
                break
        return states

    def _raise(self, name: str, env: dict, conds: list, outs: list, handlers: list) -> list:
        for hs, cont in reversed(handlers):
            for names, body in hs:
                if name in names or "Exception" in names:
                    # run the handler body; what follows the try statement is the caller's business (cont)
                    return cont(body, env, conds)
        outs.append(Outcome("raise", name, env, conds))
        return []

    def _stmt(self, st: ast.stmt, env: dict, conds: list, outs: list, handlers: list) -> list:
        if isinstance(st, ast.Expr) and isinstance(st.value, ast.Constant):
            return [(env, conds)]
        if isinstance(st, ast.Assign) and len(st.targets) == 1 and isinstance(st.targets[0], ast.Name):
            e2 = dict(env)
            e2[st.targets[0].id] = self.ev(st.value, env)
            return [(e2, conds)]
        if isinstance(st, ast.AugAssign) and isinstance(st.target, ast.Name):
            e2 = dict(env)
            e2[st.target.id] = self.ev(ast.BinOp(left=ast.Name(id=st.target.id, ctx=ast.Load()), op=st.op, right=st.value), env)
            return [(e2, conds)]
        if isinstance(st, ast.Return):
            outs.append(Outcome("return", self.ev(st.value, env) if st.value is not None else None, env, conds))
            return []
        if isinstance(st, ast.Raise):
            name = "Exception"
            if st.exc is not None:
                ex = st.exc.func if isinstance(st.exc, ast.Call) else st.exc
                name = ast.unparse(ex).split(".")[-1]
            return self._raise(name, env, conds, outs, handlers)
        if isinstance(st, ast.If):
            t = self.ev(st.test, env)
            r, alts = self.decide(t, env)
            res: list = []
            branches = [(r, env)] if r is not None else alts
            for tv, e2 in branches:
                c2 = conds + [(ast.unparse(st.test), tv)]
                res += self._block(st.body if tv else st.orelse, dict(e2), c2, outs, handlers)
            return res
        if isinstance(st, ast.Try):
            hs = []
            for h in st.handlers:
                names = ["Exception"] if h.type is None else [ast.unparse(x).split(".")[-1] for x in (h.type.elts if isinstance(h.type, ast.Tuple) else [h.type])]
                hs.append((names, h.body))
            after: list = []

            def cont(body, e, c):
                return self._block(body, dict(e), c, outs, handlers)
            res = self._block(st.body, env, conds, outs, handlers + [(hs, lambda body, e, c: after.extend(cont(body, e, c)) or [])])
            res = res + after
            if st.orelse:
                res2: list = []
                for e, c in res:
                    res2 += self._block(st.orelse, e, c, outs, handlers)
                res = res2
            return res
        if isinstance(st, ast.While):
            raise NotInFragment("while loop")
        raise NotInFragment(f"statement {type(st).__name__}")
