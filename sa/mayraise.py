"""E1 — may-raise (exception-escape) analysis.

Compositional, interprocedural: escapes(function) = the set of (exception class, origin site) pairs that can
leave it.  Every operation that can raise is a *site* (table below); `try` subtracts what its handlers catch
(class hierarchy from the repo + builtins); calls add the callee's summary (callees resolved through the class
table, MRO, `self`/`cls`/`super()` and mypy's static types of receivers).  A site is *discharged* when a
dominating guard (CFG must-facts) proves it safe: constant index below a proven length bound, `Enum(x & mask)`
total on the mask, `d[k]` under `k in d`, `struct.unpack` on a slice of proven length, ...

Soundness caveats (trusted base): Python/stdlib semantics as tabulated; MemoryError/RecursionError/
KeyboardInterrupt excluded; AttributeError/TypeError on well-typed code are trusted to mypy --strict (which the
repository enforces); implicit dunder calls (__eq__/__hash__/__repr__ in f-strings) are not followed.
"""

from __future__ import annotations

import ast
import re
import struct
from dataclasses import dataclass
from typing import Any, Callable

from .astx import call_name, dotted, method_name, walk_local
from .cfg import CFG
from .exctable import ExcTable
from .loader import NOFOLD, AnalysisError, ClassInfo, EnumMember, FuncInfo, Module, Repo
from .report import canon
from .typed import TypeTable


@dataclass(frozen=True)
class Esc:
    exc: str
    func: str  # qualname of the function containing the origin site
    stmt: str  # canonical text of the origin statement/expression
    why: str
    site: str  # file:line:qualname (display only; not part of identity)
    kstmt: str = ""  # the same text with the function's own locals named $0, $1, ... in order of first binding: identity does not depend on what locals are called

    @property
    def key(self) -> str:
        return f"{self.exc}|{self.func}|{self.kstmt or self.stmt}"

    def __hash__(self) -> int:
        return hash((self.exc, self.func, self.kstmt or self.stmt))

    def __eq__(self, o: object) -> bool:
        return isinstance(o, Esc) and (o.exc, o.func, o.kstmt or o.stmt) == (self.exc, self.func, self.kstmt or self.stmt)


SEQ_KINDS = {"bytes", "bytearray", "str", "list", "tuple", "memoryview", "Sequence", "MutableSequence", "deque"}
MAP_KINDS = {"dict", "Mapping", "MutableMapping", "defaultdict", "OrderedDict", "Counter"}


def split_union(t: str) -> list[str]:
    parts, depth, cur = [], 0, ""
    for ch in t:
        if ch in "[(":
            depth += 1
        elif ch in "])":
            depth -= 1
        if ch == "|" and depth == 0:
            parts.append(cur.strip()); cur = ""
        else:
            cur += ch
    if cur.strip():
        parts.append(cur.strip())
    return parts


def kinds(t: str) -> set[str]:
    """Coarse kinds of a mypy type string: int/bool/str/bytes/float/list/tuple/dict/None/Any/<dotted class>."""
    out: set[str] = set()
    if not t:
        return out
    for p in split_union(t):
        p = p.rstrip("?")
        if p.startswith("Literal["):
            lit = p[8:-1]
            if lit in ("True", "False"):
                out.add("bool")
            elif lit.startswith(("b'", 'b"')):
                out.add("bytes")
            elif lit.startswith(("'", '"')):
                out.add("str")
            elif lit.lstrip("-").isdigit():
                out.add("int")
            else:
                out.add(lit.rsplit(".", 1)[0] if "." in lit else "other")
            continue
        head = p.split("[")[0]
        head = {"builtins.int": "int", "builtins.str": "str", "builtins.bytes": "bytes", "builtins.bool": "bool", "builtins.float": "float", "builtins.list": "list", "builtins.tuple": "tuple", "builtins.dict": "dict", "builtins.bytearray": "bytearray"}.get(head, head)
        if head.startswith(("typing.", "collections.abc.", "collections.")):
            head = head.rsplit(".", 1)[1]
        out.add(head)
    return out

# kind of a parameter bound to a caller's value of unchecked type ("wrong types" in a property's quantifier): every
# operation on it that Python type-checks at run time is a raising site until an isinstance test narrows it
UNTYPED = "Untyped"
# builtins that accept any object
_ANY_OK_BUILTINS = {"isinstance", "str", "repr", "bool", "print", "type", "id", "callable", "hasattr", "getattr", "format", "ascii", "super", "object", "cast", "copy", "deepcopy", "is_dataclass"}

# external callables: dotted call name -> exceptions
EXTERNAL: dict[str, tuple[str, ...]] = {
    "struct.unpack": ("struct.error",), "struct.unpack_from": ("struct.error",), "struct.pack": ("struct.error",), "struct.calcsize": (),
    "socket.inet_ntoa": ("OSError",), "socket.inet_aton": ("OSError",), "ipaddress.ip_address": ("ValueError",), "ipaddress.IPv4Address": ("ValueError",),
    "bytes.fromhex": ("ValueError",), "int.from_bytes": (), "float.fromhex": ("ValueError",),
    "next": ("StopIteration",), "chr": ("ValueError",), "divmod": ("ZeroDivisionError",),
    "datetime.time": ("ValueError",), "datetime.date": ("ValueError",), "datetime.datetime": ("ValueError",), "time": ("ValueError",), "date": ("ValueError",), "datetime": ("ValueError",),
    "time.struct_time": ("TypeError",), "time.mktime": ("OverflowError", "ValueError"), "time.strftime": ("ValueError",),
    "json.loads": ("JSONDecodeError",), "re.compile": ("error",),
    "asyncio.get_running_loop": ("RuntimeError",),
    "ElementTree.fromstring": ("ParseError",), "base64.b64decode": ("ValueError",),
    "math.log": ("ValueError",), "math.sqrt": ("ValueError",), "math.log10": ("ValueError",), "math.floor": ("OverflowError", "ValueError"), "math.ceil": ("OverflowError", "ValueError"), "math.frexp": (), "math.ldexp": ("OverflowError",),
}
# methods on external (builtin) receivers: method name -> exceptions (receiver type prefix filter optional)
EXT_METHODS: dict[str, tuple[str, ...]] = {
    "index": ("ValueError",), "remove": ("ValueError",), "to_bytes": ("OverflowError",), "set_result": ("InvalidStateError",), "set_exception": ("InvalidStateError",),
    "result": ("InvalidStateError", "CancelledError"), "put_nowait": ("QueueFull",), "get_nowait": ("QueueEmpty",), "popitem": ("KeyError",), "task_done": ("ValueError",),
}
NO_RAISE_BUILTINS = {"len", "isinstance", "issubclass", "bool", "repr", "str", "print", "range", "enumerate", "zip", "sorted", "list", "tuple", "dict", "set", "frozenset", "hasattr", "type", "id", "callable", "iter", "sum", "any", "all", "abs", "hex", "bin", "oct", "min", "max", "super", "object", "format", "reversed", "map", "filter", "vars", "getattr", "setattr", "hash", "memoryview", "slice", "property", "staticmethod", "classmethod", "ord", "ascii", "pow", "copy", "deepcopy", "cast", "partial", "field", "replace", "asdict", "astuple", "fields", "is_dataclass"}


class MayRaise:
    def __init__(self, repo: Repo, types: TypeTable | None, exc: ExcTable | None = None,
                 assume_safe: Callable[[FuncInfo], bool] | None = None,
                 callback_targets: Callable[[FuncInfo, ast.Call], list[FuncInfo] | None] | None = None,
                 assert_policy: str = "raise") -> None:
        self.repo = repo
        self.types = types
        self.exc = exc or ExcTable(repo)
        self.assume_safe = assume_safe
        self.callback_targets = callback_targets
        self.assert_policy = assert_policy
        self.memo: dict[tuple[str, str], frozenset[Esc]] = {}
        self.inprogress: set[tuple[str, str]] = set()
        self.recursive: set[str] = set()
        self.unresolved: dict[str, int] = {}
        self.external_unknown: dict[str, int] = {}
        self.sites_total = 0
        self.sites_discharged = 0
        self.discharges: list[tuple[str, str, str]] = []
        self.functions_analysed: set[str] = set()
        self._cfgs: dict[str, tuple[CFG, dict, dict]] = {}
        self.by_name: dict[str, list[ClassInfo]] = {}
        for c in repo.all_classes():
            self.by_name.setdefault(c.name, []).append(c)

    # ------------------------------------------------------------------ api
    def escapes(self, fi: FuncInfo, ctx: ClassInfo | None = None, argkinds: dict[str, frozenset[str]] | None = None) -> frozenset[Esc]:
        ctx = ctx or fi.cls
        ak = tuple(sorted((k, tuple(sorted(v))) for k, v in (argkinds or {}).items() if v))
        key = (fi.ref, (ctx.ref if ctx else "") + repr(ak))
        if key in self.memo:
            return self.memo[key]
        if key in self.inprogress:
            self.recursive.add(fi.ref)
            return frozenset()
        if self.assume_safe is not None and self.assume_safe(fi):
            self.memo[key] = frozenset()
            return self.memo[key]
        self.inprogress.add(key)
        self.functions_analysed.add(fi.ref)
        try:
            an = _FuncAnalysis(self, fi, ctx, dict(argkinds or {}))
            out = frozenset(an.block(fi.node.body, None))
        finally:
            self.inprogress.discard(key)
        self.memo[key] = out
        return out

    def cfg_facts(self, fi: FuncInfo):
        if fi.ref not in self._cfgs:
            cfg = CFG(fi.node)
            mf = cfg.must_facts()
            owner: dict[int, int] = {}
            for n in cfg.nodes:
                if n.ast is None or n.kind not in ("stmt", "test", "for", "with"):
                    continue
                root = n.ast
                if n.kind == "for":
                    subs = [root.iter, root.target]  # type: ignore[attr-defined]
                elif n.kind == "with":
                    subs = [i.context_expr for i in root.items]  # type: ignore[attr-defined]
                else:
                    subs = [root]
                for s in subs:
                    for x in ast.walk(s):
                        owner.setdefault(id(x), n.id)
            self._cfgs[fi.ref] = (cfg, mf, owner)
        return self._cfgs[fi.ref]

    def is_sub(self, exc: str, of: str) -> bool:
        return self.exc.is_subclass(exc, of)

    def undefined_names(self, fi: FuncInfo) -> frozenset[str]:
        """names a function reads as globals that neither its module binds (assignment, import, def, class - at module
        level, on any branch) nor builtins provides: reading one raises NameError (symbol tables of the compiler, not
        a text search; enclosing function scopes are resolved by the compiler as free variables)"""
        import builtins
        import symtable
        memo = self.__dict__.setdefault("_undef_memo", {})
        mod = fi.module
        if mod.name not in memo:
            per: dict[tuple[str, int], frozenset[str]] = {}
            try:
                top = symtable.symtable(mod.source, mod.relpath, "exec")
            except SyntaxError:
                top = None
            if top is not None:
                bound = {sy.get_name() for sy in top.get_symbols() if sy.is_assigned() or sy.is_imported() or sy.is_namespace()}
                # `global x` assignments inside functions bind module names too
                def collect(t) -> None:
                    for ch in t.get_children():
                        for sy in ch.get_symbols():
                            if sy.is_declared_global() and sy.is_assigned():
                                bound.add(sy.get_name())
                        collect(ch)
                collect(top)
                known = bound | set(dir(builtins)) | {"__file__", "__name__", "__doc__", "__package__", "__spec__", "__loader__", "__builtins__", "__class__", "__debug__"}

                def walk(t) -> None:
                    for ch in t.get_children():
                        if ch.get_type() == "function":
                            und = frozenset(sy.get_name() for sy in ch.get_symbols() if sy.is_referenced() and sy.is_global() and sy.get_name() not in known)
                            # nested scopes (comprehensions, lambdas) read through to the same globals
                            stack = list(ch.get_children())
                            while stack:
                                g = stack.pop()
                                if g.get_type() == "function" and g.get_name() in ("listcomp", "genexpr", "setcomp", "dictcomp", "lambda"):
                                    und |= frozenset(sy.get_name() for sy in g.get_symbols() if sy.is_referenced() and sy.is_global() and sy.get_name() not in known)
                                    stack.extend(g.get_children())
                            per[(ch.get_name(), ch.get_lineno())] = und
                        walk(ch)
                walk(top)
            memo[mod.name] = per
        per = memo[mod.name]
        ln = fi.node.lineno
        # the compiler reports the line of `def`; decorators shift ast's lineno on some versions - try both
        for key in ((fi.name, ln), (fi.name, min([ln] + [d.lineno for d in fi.node.decorator_list]))):
            if key in per:
                return per[key]
        return frozenset()

    def local_defs(self, fi: FuncInfo) -> tuple[dict[str, ast.AST], set[str]]:
        """(locals with exactly one binding, a plain assignment of a call-free or any expression -> that expression;
        all other locals)"""
        c = self.__dict__.setdefault("_local_defs", {})
        if fi.ref not in c:
            from .astx import local_names
            names = set(local_names(fi.node))
            bare = {id(n.target) for n in walk_local(fi.node) if isinstance(n, ast.AnnAssign) and n.value is None}
            count: dict[str, int] = {}
            for n in walk_local(fi.node):
                if isinstance(n, ast.Name) and isinstance(n.ctx, ast.Store) and id(n) not in bare:
                    count[n.id] = count.get(n.id, 0) + 1
                elif isinstance(n, ast.ExceptHandler) and n.name:
                    count[n.name] = count.get(n.name, 0) + 2
            single: dict[str, ast.AST] = {}
            for n in walk_local(fi.node):
                if isinstance(n, (ast.Assign, ast.AnnAssign)) and n.value is not None:
                    ts = n.targets if isinstance(n, ast.Assign) else [n.target]
                    if len(ts) == 1 and isinstance(ts[0], ast.Name) and ts[0].id in names and count.get(ts[0].id) == 1:
                        single[ts[0].id] = n.value
                elif isinstance(n, ast.NamedExpr) and n.target.id in names and count.get(n.target.id) == 1:
                    single[n.target.id] = n.value
            c[fi.ref] = (single, names - set(single))
        return c[fi.ref]

    def param_const(self, fi: FuncInfo, name: str):
        """The folded constant every call site in the package passes for parameter `name` of the module-level
        function `fi` (no default used, no other reference to the function), else NOFOLD."""
        key = (fi.ref, name)
        memo = self.__dict__.setdefault("_pc_memo", {})
        if key in memo:
            return memo[key]
        res = NOFOLD
        if fi.cls is None:
            args = [a.arg for a in fi.node.args.posonlyargs + fi.node.args.args]
            vals = []
            ok = True
            for g in self.repo.all_functions():
                for n in ast.walk(g.node):
                    if isinstance(n, ast.Name) and n.id == fi.name and isinstance(n.ctx, ast.Load):
                        tgt = self.repo.resolve(g.module.name, n.id)
                        if tgt is not fi and not (isinstance(tgt, FuncInfo) and tgt.ref == fi.ref):
                            continue
                        # must be the func of a Call
                        par = [c for c in ast.walk(g.node) if isinstance(c, ast.Call) and c.func is n]
                        if not par:
                            ok = False
                            continue
                        c = par[0]
                        v = None
                        for k in c.keywords:
                            if k.arg == name:
                                v = k.value
                            if k.arg is None:
                                ok = False
                        if v is None and name in args and args.index(name) < len(c.args) and not any(isinstance(a, ast.Starred) for a in c.args):
                            v = c.args[args.index(name)]
                        if v is None:
                            ok = False
                        else:
                            vals.append(self.repo.fold(v, g.module, g.cls))
            if ok and vals and all(v is not NOFOLD and v == vals[0] for v in vals):
                res = vals[0]
        memo[key] = res
        return res


class _FuncAnalysis:
    def __init__(self, mr: MayRaise, fi: FuncInfo, ctx: ClassInfo | None, argkinds: dict[str, frozenset[str]] | None = None) -> None:
        self.mr = mr
        self.fi = fi
        self.ctx = ctx
        # parameters whose static kinds at this call are known and that are never rebound in the body
        rebound = {t.id for n in walk_local(fi.node) for t in (ast.walk(n) if isinstance(n, (ast.Assign, ast.AugAssign, ast.AnnAssign, ast.For, ast.NamedExpr, ast.With, ast.AsyncWith)) else ()) if isinstance(t, ast.Name) and isinstance(t.ctx, ast.Store)}
        self.argkinds = {k: v for k, v in (argkinds or {}).items() if k not in rebound}
        self.taint = {k for k, v in (argkinds or {}).items() if UNTYPED in v}
        self.undefined = mr.undefined_names(fi)
        self.repo = mr.repo
        self.mod = fi.module
        self.cfg, self.mf, self.owner = mr.cfg_facts(fi)
        self.params = {a.arg: a.annotation for a in fi.node.args.args + fi.node.args.kwonlyargs + fi.node.args.posonlyargs}

    # --------------------------------------------------------------- helpers
    def esc(self, exc: str, node: ast.AST, why: str, stmt: ast.AST | None = None) -> Esc:
        nd = stmt if stmt is not None else node
        return Esc(exc, self.fi.qualname, canon(nd)[:160], why, self.fi.site(node), self.ktext(nd))

    def ktext(self, node: ast.AST) -> str:
        """identity text of a site: single-definition locals are replaced by their defining expression (recursively),
        the remaining locals (loop / with / except targets, re-assigned names) by $0, $1, ... in order of appearance in
        the expression — so the identity survives renaming of locals and unrelated edits elsewhere in the function."""
        single, multi = self.mr.local_defs(self.fi)
        if not any(isinstance(n, ast.Name) and (n.id in single or n.id in multi) for n in ast.walk(node)):
            return canon(node)[:300]
        import copy

        class T(ast.NodeTransformer):
            def visit_Name(self, n: ast.Name):
                if isinstance(n.ctx, ast.Load) and n.id in single:
                    return copy.deepcopy(single[n.id])
                return n
        cp = copy.deepcopy(node)
        for _ in range(4):
            before = ast.dump(cp)
            cp = T().visit(cp)
            if ast.dump(cp) == before:
                break
        order: dict[str, str] = {}
        for n in ast.walk(cp):
            nm = n.id if isinstance(n, ast.Name) else (n.name if isinstance(n, ast.ExceptHandler) else None)
            if nm is not None and (nm in multi or nm in single):
                order.setdefault(nm, f"${len(order)}")
        for n in ast.walk(cp):
            if isinstance(n, ast.Name) and n.id in order:
                n.id = order[n.id]
            elif isinstance(n, ast.ExceptHandler) and n.name in order:
                n.name = order[n.name]
        return canon(ast.fix_missing_locations(cp))[:300]

    def facts(self, node: ast.AST, local: tuple = ()) -> set[tuple[str, bool]]:
        nid = self.owner.get(id(node))
        base = set(self.mf.get(nid, frozenset())) if nid is not None else set()
        return base | set(local)

    def typ(self, e: ast.AST) -> str:
        if self.mr.types is None:
            return ""
        t = self.mr.types.type_of(self.mod.name, e)
        return t or ""

    def untyped(self, e: ast.AST | None, local: tuple = ()) -> bool:
        """`e` is (an attribute / element of) a parameter that carries a caller's value of unchecked type, the
        parameter's own binding may still reach this use, and no isinstance test that holds here narrows it."""
        if not self.taint or e is None:
            return False
        root = e
        while isinstance(root, (ast.Attribute, ast.Subscript)):
            root = root.value
        if not isinstance(root, ast.Name):
            return False
        src = root.id
        if src not in self.taint:
            d = self.mr.local_defs(self.fi)[0].get(src)
            if not (isinstance(d, ast.Name) and d.id in self.taint):
                return False
            src = d.id
        nid = self.owner.get(id(root), self.owner.get(id(e)))
        if nid is not None:
            rd = self.cfg.reaching_defs().get(nid, {}).get(src)
            if rd is not None and -1 not in rd:
                return False
        fs = self.facts(e, local)
        x: ast.AST = e
        while True:
            txt = ast.unparse(x)
            if any(val and atom.startswith(f"isinstance({txt},") for atom, val in fs):
                return False
            if isinstance(x, (ast.Attribute, ast.Subscript)):
                x = x.value
            else:
                break
        return True

    def taint_kinds(self, c: ast.Call, fi: FuncInfo, skip_first: bool, local: tuple = (), base: dict[str, frozenset[str]] | None = None) -> dict[str, frozenset[str]] | None:
        """argument kinds for a resolved callee: `base` (static kinds) with the callee's parameters that receive an
        unchecked caller value marked UNTYPED"""
        if not self.taint:
            return base
        params = [a.arg for a in fi.node.args.posonlyargs + fi.node.args.args]
        if skip_first and params and params[0] in ("self", "cls"):
            params = params[1:]
        out = dict(base or {})
        for p_, a in zip(params, c.args):
            if isinstance(a, ast.Starred):
                break
            if self.untyped(a, local):
                out[p_] = frozenset([UNTYPED])
        for k in c.keywords:
            if k.arg and self.untyped(k.value, local):
                out[k.arg] = frozenset([UNTYPED])
        return out or base

    def untyped_site(self, e: ast.AST, operand: ast.AST, what: str, local: tuple, excs: tuple[str, ...] = ("TypeError",)) -> set[Esc]:
        if not self.untyped(operand, local):
            return set()
        return self.site([(x, f"{what} of a caller value of unchecked type (`{ast.unparse(operand)}`)") for x in excs], e, None)

    def site(self, raised: list[tuple[str, str]], node: ast.AST, discharged: str | None) -> set[Esc]:
        self.mr.sites_total += len(raised) or 1
        if discharged is not None:
            self.mr.sites_discharged += len(raised) or 1
            if len(self.mr.discharges) < 4000:
                self.mr.discharges.append((self.fi.qualname, canon(node)[:100], discharged))
            return set()
        return {self.esc(x, node, why) for x, why in raised}

    # ---------------------------------------------------------------- blocks
    def block(self, stmts: list[ast.stmt], reraise: set[Esc] | None) -> set[Esc]:
        out: set[Esc] = set()
        for st in stmts:
            out |= self.stmt(st, reraise)
        return out

    def stmt(self, st: ast.stmt, reraise: set[Esc] | None) -> set[Esc]:
        if isinstance(st, (ast.FunctionDef, ast.AsyncFunctionDef, ast.ClassDef, ast.Pass, ast.Break, ast.Continue, ast.Global, ast.Nonlocal, ast.Import, ast.ImportFrom)):
            return set()
        if isinstance(st, ast.If):
            verdict = self.static_test(st.test)
            if verdict is True:
                return self.expr(st.test) | self.block(st.body, reraise)
            if verdict is False:
                return self.expr(st.test) | self.block(st.orelse, reraise)
            return self.expr(st.test) | self.block(st.body, reraise) | self.block(st.orelse, reraise)
        if isinstance(st, ast.While):
            return self.expr(st.test) | self.block(st.body, reraise) | self.block(st.orelse, reraise)
        if isinstance(st, (ast.For, ast.AsyncFor)):
            return self.expr(st.iter) | self.untyped_site(st.iter, st.iter, "iteration", ()) | self.block(st.body, reraise) | self.block(st.orelse, reraise)
        if isinstance(st, (ast.With, ast.AsyncWith)):
            out: set[Esc] = set()
            suppress: list[str] = []
            for it in st.items:
                out |= self.expr(it.context_expr)
                ce = it.context_expr
                if isinstance(ce, ast.Call):
                    n = call_name(ce)
                    if n in ("asyncio.timeout", "asyncio.timeout_at", "async_timeout.timeout"):
                        out.add(self.esc("TimeoutError", ce, "asyncio.timeout() expiry"))
                    if n in ("contextlib.suppress", "suppress"):
                        suppress += [ast.unparse(a).split(".")[-1] for a in ce.args]
            body = self.block(st.body, reraise)
            if suppress:
                body = {e for e in body if not any(self.mr.is_sub(e.exc, s) for s in suppress)}
            return out | body
        if isinstance(st, ast.Try) or st.__class__.__name__ == "TryStar":
            return self.try_(st, reraise)  # type: ignore[arg-type]
        if isinstance(st, ast.Raise):
            out = set()
            if st.exc is None:
                return set(reraise or ())
            if st.cause is not None:
                out |= self.expr(st.cause)
            e = st.exc
            if isinstance(e, ast.Name) and reraise is not None and e.id in getattr(self, "_handler_names", ()):
                return out | set(reraise)
            target = e.func if isinstance(e, ast.Call) else e
            name = ast.unparse(target).split(".")[-1]
            if name == "TypeError" and self.mr.types is not None and not self.typ(e) and not self.taint:
                # mypy proves the statement unreachable for well-typed callers (defensive runtime type check)
                return self.site([("TypeError", "defensive type check")], st, "unreachable for well-typed callers (mypy narrowing)")
            if isinstance(e, ast.Call):
                for a in list(e.args) + [k.value for k in e.keywords]:
                    out |= self.expr(a)
            out.add(self.esc(name, st, "explicit raise"))
            return out
        if isinstance(st, ast.Assert):
            out = self.expr(st.test)
            if self.mr.assert_policy == "raise":
                txt = ast.unparse(st.test)
                if not txt.startswith("isinstance("):
                    out.add(self.esc("AssertionError", st, "assert"))
                else:
                    out.add(self.esc("AssertionError", st, "assert isinstance (type narrowing)"))
            return out
        if isinstance(st, ast.Return):
            return self.expr(st.value) if st.value is not None else set()
        if isinstance(st, ast.Delete):
            out = set()
            for t in st.targets:
                if isinstance(t, ast.Subscript):
                    out |= self.expr(t.value) | self.expr(t.slice)
                    out |= self.subscript_site(t, st)
            return out
        if isinstance(st, ast.Assign):
            out = self.expr(st.value)
            if any(isinstance(t, (ast.Tuple, ast.List)) for t in st.targets):
                out |= self.untyped_site(st, st.value, "unpacking", ())
            for t in st.targets:
                out |= self.target(t, st.value, st)
            return out
        if isinstance(st, ast.AnnAssign):
            return (self.expr(st.value) | self.target(st.target, st.value, st)) if st.value is not None else set()
        if isinstance(st, ast.AugAssign):
            out = self.expr(st.value)
            if isinstance(st.target, ast.Subscript):
                out |= self.expr(st.target.value) | self.subscript_site(st.target, st)
            out |= self.binop_site(st.op, st.target, st.value, st) | self.untyped_site(st, st.value, "arithmetic", ()) | self.untyped_site(st, st.target, "arithmetic", ())
            return out
        if isinstance(st, ast.Expr):
            return self.expr(st.value)
        if isinstance(st, ast.Match):
            raise AnalysisError(f"may-raise: match statement not supported ({self.fi.site(st)})")
        raise AnalysisError(f"may-raise: unsupported statement {type(st).__name__} at {self.fi.site(st)}")

    def static_test(self, t: ast.AST) -> bool | None:
        """Decide `isinstance(param, T)` tests from the static kinds of the argument at this call (dead-branch pruning)."""
        if isinstance(t, ast.UnaryOp) and isinstance(t.op, ast.Not):
            r = self.static_test(t.operand)
            return None if r is None else not r
        if isinstance(t, ast.BoolOp):
            rs = [self.static_test(v) for v in t.values]
            if isinstance(t.op, ast.And):
                return False if any(r is False for r in rs) else (True if all(r is True for r in rs) else None)
            return True if any(r is True for r in rs) else (False if all(r is False for r in rs) else None)
        if isinstance(t, ast.Call) and isinstance(t.func, ast.Name) and t.func.id == "isinstance" and len(t.args) == 2 and isinstance(t.args[0], ast.Name):
            ks = self.argkinds.get(t.args[0].id)
            if not ks or "Any" in ks or "other" in ks or UNTYPED in ks:
                return None
            def flat(x: ast.AST) -> list[str]:
                if isinstance(x, ast.Tuple):
                    return [y for e in x.elts for y in flat(e)]
                if isinstance(x, ast.BinOp) and isinstance(x.op, ast.BitOr):
                    return flat(x.left) + flat(x.right)
                return [ast.unparse(x)]
            tnames = flat(t.args[1])
            def covers(kind: str, tname: str) -> bool | None:
                tn = tname.split(".")[-1]
                prim = {"int": {"int", "bool"}, "bool": {"bool"}, "str": {"str"}, "bytes": {"bytes"}, "bytearray": {"bytearray"}, "float": {"float"}, "tuple": {"tuple"}, "list": {"list"}, "dict": {"dict"}}
                if tn in prim:
                    return kind in prim[tn]
                if kind in ("int", "bool", "str", "bytes", "bytearray", "float", "tuple", "list", "dict", "None"):
                    return False if tn in self.mr.by_name or tn in prim else None
                kc = kind.split(".")[-1]
                if kc in self.mr.by_name and tn in self.mr.by_name:
                    return any(tn in {c.name for c in self.repo.mro(ci)} for ci in self.mr.by_name[kc])
                return None
            res = []
            for k in ks:
                rk = [covers(k, tn) for tn in tnames]
                res.append(True if any(r is True for r in rk) else (None if any(r is None for r in rk) else False))
            if all(r is True for r in res):
                return True
            if all(r is False for r in res):
                return False
        return None

    def bind_kinds(self, c: ast.Call, fi: FuncInfo, skip_first: bool) -> dict[str, frozenset[str]]:
        params = [a.arg for a in fi.node.args.posonlyargs + fi.node.args.args]
        if skip_first and params and params[0] in ("self", "cls"):
            params = params[1:]
        out: dict[str, frozenset[str]] = {}
        for p_, a in zip(params, c.args):
            if isinstance(a, ast.Starred):
                break
            ks = kinds(self.typ(a))
            if ks == {"Any"} and isinstance(a, ast.Name):
                ks = self.struct_kind(a) or ks
            if ks:
                out[p_] = frozenset(ks)
        for k in c.keywords:
            if k.arg:
                ks = kinds(self.typ(k.value))
                if ks:
                    out[k.arg] = frozenset(ks)
        return out

    def try_(self, st: ast.Try, reraise: set[Esc] | None) -> set[Esc]:
        body = self.block(st.body, reraise)
        passes: set[Esc] = set()
        caught: list[set[Esc]] = [set() for _ in st.handlers]
        for e in body:
            for i, h in enumerate(st.handlers):
                names = ["BaseException"] if h.type is None else [ast.unparse(x).split(".")[-1] if ast.unparse(x) != "struct.error" else "error" for x in (h.type.elts if isinstance(h.type, ast.Tuple) else [h.type])]
                if any(self.mr.is_sub(e.exc, n) for n in names):
                    caught[i].add(e)
                    break
            else:
                passes.add(e)
        out = passes
        for h, c in zip(st.handlers, caught):
            prev = getattr(self, "_handler_names", ())
            self._handler_names = prev + ((h.name,) if h.name else ())
            try:
                out |= self.block(h.body, c)
            finally:
                self._handler_names = prev
        out |= self.block(st.orelse, reraise)
        out |= self.block(st.finalbody, reraise)
        return out

    def target(self, t: ast.AST, value: ast.AST | None, st: ast.stmt) -> set[Esc]:
        out: set[Esc] = set()
        if isinstance(t, (ast.Tuple, ast.List)):
            n = len(t.elts)
            ok = None
            if isinstance(value, (ast.Tuple, ast.List)) and len(value.elts) == n:
                ok = "literal of the same arity"
            elif value is not None:
                vt = self.typ(value)
                m = re.match(r"^tuple\[(.*)\]$", vt)
                if m and "..." not in vt and _count_top(m.group(1)) == n:
                    ok = f"static type {vt}"
                elif isinstance(value, ast.Call) and call_name(value) in ("struct.unpack",) and value.args and isinstance(value.args[0], ast.Constant):
                    try:
                        if len(struct.unpack(value.args[0].value, bytes(struct.calcsize(value.args[0].value)))) == n:
                            ok = "struct format yields the same arity"
                    except struct.error:
                        pass
                elif isinstance(value, ast.Await) or (isinstance(value, ast.Call) and not vt):
                    ok = None
            if not any(isinstance(x, ast.Starred) for x in t.elts):
                out |= self.site([("ValueError", "tuple unpacking arity")], st, ok)
            for x in t.elts:
                out |= self.target(x, None, st)
        elif isinstance(t, ast.Subscript):
            out |= self.expr(t.value) | self.expr(t.slice)
            bt = self.typ(t.value)
            if kinds(bt) & {"list", "bytearray"} and not isinstance(t.slice, ast.Slice):
                out |= self.subscript_site(t, st)
        elif isinstance(t, ast.Attribute):
            out |= self.expr(t.value)
        elif isinstance(t, ast.Starred):
            out |= self.target(t.value, None, st)
        return out

    # ------------------------------------------------------------ expressions
    def expr(self, e: ast.AST | None, local: tuple = ()) -> set[Esc]:
        if e is None:
            return set()
        if isinstance(e, ast.Name):
            if self.undefined and isinstance(e.ctx, ast.Load) and e.id in self.undefined:
                return self.site([("NameError", f"`{e.id}` is bound neither in this function, nor at module level, nor by builtins")], e, None)
            return set()
        if isinstance(e, ast.Constant):
            return set()
        if isinstance(e, ast.Lambda):
            return set()
        if isinstance(e, ast.Await):
            return self.expr(e.value, local)
        if isinstance(e, ast.Call):
            return self.call(e, local)
        if isinstance(e, ast.Subscript):
            if self.untyped(e.value, local):
                # an object of another type refuses the subscript (TypeError); what the declared type may raise still applies
                return self.expr(e.value, local) | self.expr(e.slice, local) | self.subscript_site(e, e, local) | self.untyped_site(e, e.value, "subscript", local)
            return self.expr(e.value, local) | self.expr(e.slice, local) | self.subscript_site(e, e, local) | (self.untyped_site(e, e.slice, "key / index", local) if not isinstance(e.slice, ast.Slice) else set())
        if isinstance(e, ast.Slice):
            return self.expr(e.lower, local) | self.expr(e.upper, local) | self.expr(e.step, local)
        if isinstance(e, ast.Attribute):
            out = self.expr(e.value, local)
            if self.untyped(e.value, local):
                return out | self.untyped_site(e, e.value, "attribute access", local, ("AttributeError",))
            out |= self.property_site(e)
            return out
        if isinstance(e, ast.BinOp):
            return self.expr(e.left, local) | self.expr(e.right, local) | self.binop_site(e.op, e.left, e.right, e, local) | self.untyped_site(e, e.left, "arithmetic", local) | self.untyped_site(e, e.right, "arithmetic", local)
        if isinstance(e, ast.UnaryOp):
            return self.expr(e.operand, local) | (self.untyped_site(e, e.operand, "unary operator", local) if not isinstance(e.op, ast.Not) else set())
        if isinstance(e, ast.BoolOp):
            out: set[Esc] = set()
            loc = local
            for v in e.values:
                out |= self.expr(v, loc)
                # later operands are evaluated only when the earlier ones were true (and) / false (or)
                for atom, val in _atoms(v, isinstance(e.op, ast.And)):
                    loc = loc + ((atom, val),)
            return out
        if isinstance(e, ast.IfExp):
            out = self.expr(e.test, local)
            out |= self.expr(e.body, local + tuple(_atoms(e.test, True)))
            out |= self.expr(e.orelse, local + tuple(_atoms(e.test, False)))
            return out
        if isinstance(e, ast.Compare):
            out = self.expr(e.left, local)
            for c in e.comparators:
                out |= self.expr(c, local)
            if self.taint:
                lhs = e.left
                for op, rhs in zip(e.ops, e.comparators):
                    if isinstance(op, (ast.Lt, ast.LtE, ast.Gt, ast.GtE)):
                        out |= self.untyped_site(e, lhs, "ordering comparison", local) | self.untyped_site(e, rhs, "ordering comparison", local)
                    elif isinstance(op, (ast.In, ast.NotIn)):
                        out |= self.untyped_site(e, rhs, "membership test in", local)
                        if not isinstance(rhs, (ast.Tuple, ast.List)) and not (kinds(self.typ(rhs)) and kinds(self.typ(rhs)) <= {"list", "tuple", "str", "bytes"}):
                            out |= self.untyped_site(e, lhs, "hashing (membership in a set / mapping)", local)
                    lhs = rhs
            return out
        if isinstance(e, (ast.Tuple, ast.List, ast.Set)):
            out = set()
            for x in e.elts:
                out |= self.expr(x, local)
            return out
        if isinstance(e, ast.Dict):
            out = set()
            for k, v in zip(e.keys, e.values):
                out |= self.expr(k, local) | self.expr(v, local)
            return out
        if isinstance(e, ast.Starred):
            return self.expr(e.value, local) | self.untyped_site(e, e.value, "unpacking", local)
        if isinstance(e, ast.NamedExpr):
            return self.expr(e.value, local)
        if isinstance(e, ast.JoinedStr):
            out = set()
            for v in e.values:
                if isinstance(v, ast.FormattedValue):
                    out |= self.expr(v, local)
            return out
        if isinstance(e, ast.FormattedValue):
            return self.expr(e.value, local) | (self.untyped_site(e, e.value, "format specification", local, ("TypeError", "ValueError")) if e.format_spec is not None else set())
        if isinstance(e, (ast.ListComp, ast.SetComp, ast.GeneratorExp, ast.DictComp)):
            out = set()
            loc = local
            for g in e.generators:
                out |= self.expr(g.iter, loc) | self.untyped_site(e, g.iter, "iteration", loc)
                for i in g.ifs:
                    out |= self.expr(i, loc)
                    loc = loc + tuple(_atoms(i, True))
            if isinstance(e, ast.DictComp):
                out |= self.expr(e.key, loc) | self.expr(e.value, loc)
            else:
                out |= self.expr(e.elt, loc)
            return out
        if isinstance(e, (ast.Yield, ast.YieldFrom)):
            return self.expr(e.value, local) if e.value is not None else set()
        return set()

    # ------------------------------------------------------------------ sites
    def len_lower_bound(self, text: str, node: ast.AST, local: tuple = (), depth: int = 0) -> int:
        lb = 0
        for atom, val in self.facts(node, local):
            lb = max(lb, _len_fact(self.fold_atom(atom), val, text))
        # derived slices: Y = X[a:] / X[a:b]  (single assignment, looked up in the function)
        if depth < 3 and text.isidentifier():
            defs = [n for n in walk_local(self.fi.node) if isinstance(n, ast.Assign) and len(n.targets) == 1 and isinstance(n.targets[0], ast.Name) and n.targets[0].id == text]
            if len(defs) == 1 and self.is_validated_payload(defs[0].value) and self.ctx is not None:
                pl = self.repo.const(self.ctx, "payload_length")
                pt = self.repo.class_attr_expr(self.ctx, "payload_type")
                if isinstance(pl, int) and pt is not None:
                    lb = max(lb, pl if ast.unparse(pt[0]) == "DPTArray" else 1)
            if len(defs) == 1 and isinstance(defs[0].value, ast.Subscript) and isinstance(defs[0].value.slice, ast.Slice):
                sl = defs[0].value.slice
                lo = self.repo.fold(sl.lower, self.mod, self.ctx) if sl.lower is not None else 0
                if isinstance(lo, int) and lo >= 0 and sl.step is None:
                    base_lb = self.len_lower_bound(ast.unparse(defs[0].value.value), defs[0], (), depth + 1)
                    if sl.upper is None:
                        lb = max(lb, base_lb - lo)
                    else:
                        hi = self.repo.fold(sl.upper, self.mod, self.ctx)
                        if isinstance(hi, int) and hi >= 0:
                            lb = max(lb, min(hi, base_lb) - lo)
        return lb

    def is_validated_payload(self, v: ast.AST) -> bool:
        """`cls.validate_payload(payload)`: returns a tuple of exactly payload_length octets (DPTArray) or one value
        below 2**payload_length (DPTBinary) — contract checked by C07 on DPTBase.validate_payload itself."""
        return isinstance(v, ast.Call) and isinstance(v.func, ast.Attribute) and v.func.attr == "validate_payload" and isinstance(v.func.value, ast.Name) and v.func.value.id in ("cls", "self")

    def from_validated_payload(self, e: ast.AST) -> bool:
        if isinstance(e, ast.Name):
            defs = [n for n in walk_local(self.fi.node) if isinstance(n, ast.Assign) and len(n.targets) == 1 and isinstance(n.targets[0], ast.Name) and n.targets[0].id == e.id]
            return len(defs) == 1 and self.is_validated_payload(defs[0].value)
        return self.is_validated_payload(e)

    def fold_atom(self, atom: str) -> str:
        """Rewrite `len(x) <op> NAME` with NAME folded to its constant (class/module constants)."""
        if "len(" not in atom:
            return atom
        try:
            e = ast.parse(atom, mode="eval").body
        except SyntaxError:
            return atom
        if isinstance(e, ast.Compare) and len(e.ops) == 1:
            l, r = e.left, e.comparators[0]
            changed = False
            for side in ("l", "r"):
                x = l if side == "l" else r
                if not (isinstance(x, ast.Call) and call_name(x) == "len") and not isinstance(x, ast.Constant):
                    v = self.repo.fold(x, self.mod, self.ctx)
                    if isinstance(v, int) and not isinstance(v, bool):
                        if side == "l":
                            l = ast.Constant(v)
                        else:
                            r = ast.Constant(v)
                        changed = True
                    elif isinstance(v, (tuple, list)) and all(isinstance(i, int) for i in v):
                        if side == "r":
                            r = ast.Tuple(elts=[ast.Constant(i) for i in v], ctx=ast.Load())
                            changed = True
            if changed:
                return ast.unparse(ast.Compare(left=l, ops=e.ops, comparators=[r]))
        return atom

    def struct_kind(self, name: ast.Name) -> set[str]:
        """Kind of a local bound by tuple-unpacking a struct.unpack(...) result with a literal format."""
        for n in walk_local(self.fi.node):
            if isinstance(n, ast.Assign) and isinstance(n.value, ast.Call) and call_name(n.value) == "struct.unpack" and n.value.args:
                fmt = self.repo.fold(n.value.args[0], self.mod, self.ctx)
                for t in n.targets:
                    if isinstance(t, (ast.Tuple, ast.List)) and isinstance(fmt, str):
                        codes = re.findall(r"(\d*)([xcbB?hHiIlLqQnNefdspP])", fmt.lstrip("@=<>!"))
                        items = []
                        for cnt, code in codes:
                            if code == "x":
                                continue
                            if code in "sp":
                                items.append("bytes")
                            else:
                                items += ["float" if code in "efd" else ("bool" if code == "?" else ("bytes" if code == "c" else "int"))] * (int(cnt) if cnt else 1)
                        if len(items) == len(t.elts):
                            for el, k in zip(t.elts, items):
                                if isinstance(el, ast.Name) and el.id == name.id:
                                    return {k}
        return set()

    def subscript_site(self, e: ast.Subscript, report: ast.AST, local: tuple = ()) -> set[Esc]:
        if isinstance(e.slice, ast.Slice):
            return set()
        bt = self.typ(e.value)
        base_text = ast.unparse(e.value)
        idx = self.repo.fold(e.slice, self.mod, self.ctx)
        ks = kinds(bt) - {"None"}
        is_map = bool(ks) and ks <= MAP_KINDS
        is_seq = bool(ks) and ks <= SEQ_KINDS
        if bt.startswith(("type[", "def (", "Overload(")) or (isinstance(e.value, ast.Name) and e.value.id in ("list", "dict", "tuple", "set", "type", "Callable", "Generic")):
            return set()  # generic alias subscription
        if is_map:
            ok = None
            k = ast.unparse(e.slice)
            for atom, val in self.facts(e, local):
                if val and atom in (f"{k} in {base_text}",):
                    ok = f"dominated by `{atom}`"
                if (not val) and atom in (f"{k} not in {base_text}",):
                    ok = f"dominated by not `{atom}`"
                if val and atom in (f"{base_text}.get({k}) is not None",):
                    ok = f"dominated by `{atom}` (a key whose value is not None is present)"
                if (not val) and atom in (f"{base_text}.get({k}) is None",):
                    ok = f"dominated by not `{atom}`"
            return self.site([("KeyError", f"mapping lookup on {bt or '?'}")], report, ok)
        if isinstance(idx, int) and not isinstance(idx, bool):
            # fixed tuples
            m = re.match(r"^tuple\[(.*)\]$", bt)
            if m and "..." not in bt:
                n = _count_top(m.group(1))
                if -n <= idx < n:
                    return self.site([("IndexError", "tuple index")], report, f"static type {bt}")
            need = idx + 1 if idx >= 0 else -idx
            lb = self.len_lower_bound(base_text, e, local)
            if self.is_validated_payload(e.value) and self.ctx is not None:
                pl = self.repo.const(self.ctx, "payload_length")
                pt = self.repo.class_attr_expr(self.ctx, "payload_type")
                if isinstance(pl, int) and pt is not None:
                    lb = max(lb, pl if ast.unparse(pt[0]) == "DPTArray" else 1)
            if lb >= need:
                return self.site([("IndexError", "sequence index")], report, f"len({base_text}) >= {lb} proven by a dominating guard")
            fmt0 = self.repo.fold(e.value.args[0], self.mod, self.ctx) if isinstance(e.value, ast.Call) and call_name(e.value) == "struct.unpack" and e.value.args else None
            if isinstance(fmt0, str):
                try:
                    n = len(struct.unpack(fmt0, bytes(struct.calcsize(fmt0))))
                    if -n <= idx < n:
                        return self.site([("IndexError", "index into struct.unpack result")], report, "struct format arity")
                except struct.error:
                    pass
            return self.site([("IndexError", f"index {idx} of {base_text} (len >= {lb} known)")], report, None)
        if is_seq:
            # variable index: loop index patterns are not modelled -> undischarged
            return self.site([("IndexError", f"variable index into {bt}")], report, None)
        if not bt or bt == "Any":
            return self.site([("IndexError", "subscript of untyped value"), ("KeyError", "subscript of untyped value")], report, None)
        # repo class with __getitem__ ?
        return set()

    def binop_site(self, op: ast.operator, left: ast.AST, right: ast.AST, node: ast.AST, local: tuple = ()) -> set[Esc]:
        if isinstance(op, (ast.Div, ast.FloorDiv, ast.Mod)):
            lt = self.typ(left)
            if isinstance(op, ast.Mod) and (kinds(lt) == {"str"} or isinstance(left, (ast.Constant, ast.JoinedStr)) and isinstance(getattr(left, "value", None), str)):
                return set()
            v = self.repo.fold(right, self.mod, self.ctx)
            if isinstance(v, (int, float)) and v != 0:
                return self.site([("ZeroDivisionError", "division")], node, f"constant divisor {v}")
            rr = self.int_range(right, local)
            if rr is not None and (rr[0] > 0 or rr[1] < 0):
                return self.site([("ZeroDivisionError", "division")], node, f"divisor in [{rr[0]}, {rr[1]}] excludes 0")
            rt = ast.unparse(right)
            for atom, val in self.facts(node, local):
                if (atom == rt and val) or (atom in (f"{rt} == 0", f"not {rt}") and not val) or (atom in (f"{rt} != 0", f"{rt} > 0") and val):
                    return self.site([("ZeroDivisionError", "division")], node, f"divisor proven non-zero by `{atom}`={val}")
            return self.site([("ZeroDivisionError", f"division by `{rt}`")], node, None)
        return set()

    def property_site(self, e: ast.Attribute) -> set[Esc]:
        if self.mr.types is None or isinstance(e.ctx, (ast.Store, ast.Del)):
            return set()
        bt = self.typ(e.value)
        out: set[Esc] = set()
        for ci in self.classes_of_type(bt):
            m = self.repo.lookup_method(ci, e.attr)
            if m is not None and any(d in ("property", "cached_property", "functools.cached_property") for d in m.decorators):
                out |= set(self.mr.escapes(m, ci))
        if isinstance(e.value, ast.Name) and e.value.id == "self" and self.ctx is not None:
            m = self.repo.lookup_method(self.ctx, e.attr)
            if m is not None and "property" in m.decorators:
                out |= set(self.mr.escapes(m, self.ctx))
        return out

    def classes_of_type(self, t: str) -> list[ClassInfo]:
        out: list[ClassInfo] = []
        if not t:
            return out
        for part in re.split(r"\s*\|\s*|Union\[|,\s*|\]", t):
            part = part.strip()
            if part.startswith("type["):
                part = part[5:]
            part = part.split("[")[0].rstrip("?")
            if part and "." not in part:
                # a type variable of this module: its bound
                tv = self.mod.assigns.get(part)
                if isinstance(tv, ast.Call) and call_name(tv) in ("TypeVar", "typing.TypeVar"):
                    bnd = next((k.value for k in tv.keywords if k.arg == "bound"), None)
                    tgt = self.repo.resolve_expr(self.mod, bnd) if bnd is not None and not isinstance(bnd, ast.Constant) else (self.repo.resolve(self.mod.name, bnd.value) if isinstance(bnd, ast.Constant) and isinstance(bnd.value, str) else None)
                    if isinstance(tgt, ClassInfo):
                        out.append(tgt)
                continue
            if part.startswith("xknx."):
                modname, _, cname = part.rpartition(".")
                m = self.repo.modules.get(modname)
                if m and cname in m.classes:
                    out.append(m.classes[cname])
                else:
                    # nested class: xknx.mod.Outer.Inner
                    mm, _, outer = modname.rpartition(".")
                    m2 = self.repo.modules.get(mm)
                    if m2 and f"{outer}.{cname}" in m2.classes:
                        out.append(m2.classes[f"{outer}.{cname}"])
        return out

    # ------------------------------------------------------------------ calls
    SPAWNERS = ("create_task", "ensure_future", "run_coroutine_threadsafe")

    def call(self, c: ast.Call, local: tuple = ()) -> set[Esc]:
        out: set[Esc] = set()
        if method_name(c) in self.SPAWNERS or call_name(c).split(".")[-1] in self.SPAWNERS:
            # a coroutine object handed to a task spawner runs in its own task: creating it executes nothing, and
            # what the task raises stays in the task (it never propagates into the spawning frame)
            for a in c.args:
                tgt_async = False
                if isinstance(a, ast.Call):
                    if isinstance(a.func, ast.Attribute) and isinstance(a.func.value, ast.Name) and a.func.value.id in ("self", "cls") and self.ctx is not None:
                        m_ = self.repo.lookup_method(self.ctx, a.func.attr)
                        tgt_async = m_ is not None and m_.is_async
                    elif isinstance(a.func, ast.Name):
                        t_ = self.repo.resolve(self.mod.name, a.func.id)
                        tgt_async = isinstance(t_, FuncInfo) and t_.is_async
                if isinstance(a, ast.Call) and tgt_async:
                    for x in list(a.args) + [k.value for k in a.keywords]:
                        out |= self.expr(x, local)
                    if isinstance(a.func, ast.Attribute):
                        out |= self.expr(a.func.value, local)
                else:
                    out |= self.expr(a, local)
            for k in c.keywords:
                out |= self.expr(k.value, local)
            return out
        for a in c.args:
            out |= self.expr(a, local)
        for k in c.keywords:
            out |= self.expr(k.value, local)
        f = c.func
        name = call_name(c)
        if self.taint:
            if isinstance(f, ast.Attribute) and self.untyped(f.value, local):
                # an object of another type has no method of that name (look-alikes with another signature are not modelled)
                return out | self.untyped_site(c, f.value, "method call", local, ("AttributeError",))
            if isinstance(f, ast.Name) and self.untyped(f, local):
                return out | self.untyped_site(c, f, "call", local)
        # 1. callbacks supplied by the property
        if self.mr.callback_targets is not None:
            tg = self.mr.callback_targets(self.fi, c)
            if tg is not None:
                for t in tg:
                    out |= set(self.mr.escapes(t, t.cls))
                return out
        # 2. plain names
        if isinstance(f, ast.Name):
            tgt = self.repo.resolve(self.mod.name, f.id)
            if isinstance(tgt, FuncInfo):
                return out | set(self.mr.escapes(tgt, None, self.taint_kinds(c, tgt, False, local, self.bind_kinds(c, tgt, False))))
            if isinstance(tgt, ClassInfo):
                return out | self.construct(tgt, c, local)
            if f.id == "cls" and self.ctx is not None:
                return out | self.construct(self.ctx, c, local, exact=False)
            return out | self.builtin_call(f.id, c, local)
        if isinstance(f, ast.Attribute):
            out |= self.expr(f.value, local)
            base = f.value
            # super().m()
            if isinstance(base, ast.Call) and isinstance(base.func, ast.Name) and base.func.id == "super" and self.ctx is not None and self.fi.cls is not None:
                mro = self.repo.mro(self.ctx)
                if self.fi.cls in mro:
                    for b in mro[mro.index(self.fi.cls) + 1:]:
                        if f.attr in b.methods:
                            return out | set(self.mr.escapes(b.methods[f.attr], self.ctx, self.taint_kinds(c, b.methods[f.attr], True, local)))
                return out
            # self.m() / cls.m()
            if isinstance(base, ast.Name) and base.id in ("self", "cls") and self.ctx is not None:
                m = self.repo.lookup_method(self.ctx, f.attr)
                if m is not None:
                    res = set(self.mr.escapes(m, self.ctx, self.taint_kinds(c, m, True, local)))
                    for sub in self.repo.subclasses(self.ctx, strict=True):
                        ms = self.override_in(sub, f.attr, self.ctx)
                        if ms is not None:
                            res |= set(self.mr.escapes(ms, sub, self.taint_kinds(c, ms, True, local)))
                    return out | res
                # class attribute holding a class (e.g. `data_type = HVACMode`): constructor call
                ci = self.class_valued_attr(f.attr)
                if ci is not None:
                    return out | self.construct(ci, c, local)
                # attribute holding a callable / object
                return out | self.unresolved(c, name)
            # cls.<class-valued attr>.method(...)
            if isinstance(base, ast.Attribute) and isinstance(base.value, ast.Name) and base.value.id in ("self", "cls") and self.ctx is not None:
                ci = self.class_valued_attr(base.attr)
                if ci is not None:
                    m = self.repo.lookup_method(ci, f.attr)
                    if m is not None:
                        return out | set(self.mr.escapes(m, ci, self.taint_kinds(c, m, True, local, self.bind_kinds(c, m, True))))
            # Class.m() / module.func()
            tgt = self.repo.resolve_expr(self.mod, base)
            if isinstance(tgt, ClassInfo):
                m = self.repo.lookup_method(tgt, f.attr)
                if m is not None:
                    return out | set(self.mr.escapes(m, tgt, self.taint_kinds(c, m, True, local, self.bind_kinds(c, m, True))))
                nested = tgt.module.classes.get(f"{tgt.name}.{f.attr}")
                if nested is not None:
                    return out | self.construct(nested, c, local)
            if isinstance(tgt, Module):
                t2 = self.repo.resolve(tgt.name, f.attr)
                if isinstance(t2, FuncInfo):
                    return out | set(self.mr.escapes(t2, None, self.taint_kinds(c, t2, False, local)))
                if isinstance(t2, ClassInfo):
                    return out | self.construct(t2, c, local)
            full = self.repo.resolve_expr(self.mod, f)
            if isinstance(full, FuncInfo):
                return out | set(self.mr.escapes(full, full.cls, self.taint_kinds(c, full, full.cls is not None, local)))
            if isinstance(full, ClassInfo):
                return out | self.construct(full, c, local)
            # receiver by static type
            bt = self.typ(base)
            classes = self.classes_of_type(bt)
            if classes:
                res: set[Esc] = set()
                found = False
                for ci in classes:
                    is_type = bt.startswith("type[") or f"type[{ci.module.name}.{ci.name}" in bt
                    m = self.repo.lookup_method(ci, f.attr)
                    if m is not None:
                        found = True
                        res |= set(self.mr.escapes(m, ci, self.taint_kinds(c, m, True, local)))
                    for sub in self.repo.subclasses(ci, strict=True):
                        ms = self.override_in(sub, f.attr, ci)
                        if ms is not None:
                            found = True
                            res |= set(self.mr.escapes(ms, sub, self.taint_kinds(c, ms, True, local)))
                if found:
                    return out | res
            return out | self.external_call(name, f.attr, bt, c, local)
        return out | self.unresolved(c, name)

    def override_in(self, sub: ClassInfo, attr: str, base: ClassInfo) -> FuncInfo | None:
        """the method `attr` resolves to on `sub` when that is not what `base` (or a class between them, visited on
        its own) provides: defined by `sub` itself, or inherited from a mix-in outside `base`'s hierarchy"""
        if attr in sub.methods:
            return sub.methods[attr]
        m = self.repo.lookup_method(sub, attr)
        if m is None or m.cls is None or m.cls is base:
            return None
        if self.repo.is_subclass(m.cls, base) or self.repo.is_subclass(base, m.cls):
            return None
        return m

    def class_valued_attr(self, attr: str) -> ClassInfo | None:
        if self.ctx is None:
            return None
        hit = self.repo.class_attr_expr(self.ctx, attr)
        if hit is None:
            return None
        tgt = self.repo.resolve_expr(hit[1].module, hit[0])
        return tgt if isinstance(tgt, ClassInfo) else None

    def unresolved(self, c: ast.Call, name: str) -> set[Esc]:
        self.mr.unresolved[f"{self.fi.qualname}: {name}"] = self.mr.unresolved.get(f"{self.fi.qualname}: {name}", 0) + 1
        return set()

    def construct(self, ci: ClassInfo, c: ast.Call, local: tuple, exact: bool = True) -> set[Esc]:
        if self.repo.is_enum(ci):
            return self.enum_site(ci, c, local)
        if self.mr.exc.known(ci.name) and ci.name in self.mr.exc.by_name:
            init = self.repo.lookup_method(ci, "__init__")
            return set(self.mr.escapes(init, ci)) if init is not None else set()
        out: set[Esc] = set()
        for mname in ("__new__", "__init__", "__post_init__"):
            m = self.repo.lookup_method(ci, mname)
            if m is not None:
                out |= set(self.mr.escapes(m, ci, self.taint_kinds(c, m, True, local, self.bind_kinds(c, m, True)) if mname == "__init__" else None))
        return out

    def enum_site(self, ci: ClassInfo, c: ast.Call, local: tuple) -> set[Esc]:
        if len(c.args) != 1:
            return set()
        members = self.repo.enum_members(ci)
        vals = {v for v in members.values() if isinstance(v, int)}
        arg = c.args[0]
        ok = None
        rng = self.int_range(arg, local)
        if rng is not None and vals and all(x in vals for x in range(rng[0], rng[1] + 1)) and (rng[1] - rng[0]) < 70000:
            ok = f"argument in [{rng[0]}, {rng[1]}] and every value is a member of {ci.name}"
        if ok is None and "_missing_" in ci.methods:
            # a total _missing_ (never returns None) makes the constructor total
            m = ci.methods["_missing_"]
            rets = [n for n in walk_local(m.node) if isinstance(n, ast.Return)]
            if rets and not any(n.value is None or (isinstance(n.value, ast.Constant) and n.value.value is None) for n in rets) and not self.mr.cfg_facts(m)[0].falls_off_end():
                ok = f"{ci.name}._missing_ never returns None"
        at = self.typ(arg)
        if ok is None and at and any(x.name == ci.name for x in self.classes_of_type(at)):
            ok = "argument already is a member"
        return self.site([("ValueError", f"{ci.name}(value) for a value that is not a member")], c, ok)

    def int_range(self, e: ast.AST, local: tuple = ()) -> tuple[int, int] | None:
        v = self.repo.fold(e, self.mod, self.ctx)
        if isinstance(v, int) and not isinstance(v, bool):
            return (v, v)
        if isinstance(e, ast.Name) and e.id in self.params:
            pc = self.mr.param_const(self.fi, e.id)
            if isinstance(pc, int) and not isinstance(pc, bool):
                return (pc, pc)
        if isinstance(e, ast.NamedExpr):
            return self.int_range(e.value, local)
        if isinstance(e, ast.BinOp):
            if isinstance(e.op, ast.BitAnd):
                for a, b in ((e.left, e.right), (e.right, e.left)):
                    m = self.repo.fold(b, self.mod, self.ctx)
                    if isinstance(m, int) and m >= 0:
                        return (0, m)
            if isinstance(e.op, ast.RShift):
                r = self.int_range(e.left, local)
                k = self.repo.fold(e.right, self.mod, self.ctx)
                if r is not None and isinstance(k, int) and k >= 0:
                    return (r[0] >> k, r[1] >> k)
            if isinstance(e.op, ast.Mod):
                kr = self.int_range(e.right, local)
                lk = kinds(self.typ(e.left))
                if kr is not None and kr[0] >= 1 and (self.int_range(e.left, local) is not None or (lk and lk <= {"int", "bool"})):
                    return (0, kr[1] - 1)
            if isinstance(e.op, (ast.Add, ast.Sub, ast.Mult, ast.LShift, ast.BitOr)):
                ra, rb = self.int_range(e.left, local), self.int_range(e.right, local)
                if ra is not None and rb is not None:
                    if isinstance(e.op, ast.Add):
                        return (ra[0] + rb[0], ra[1] + rb[1])
                    if isinstance(e.op, ast.Sub):
                        return (ra[0] - rb[1], ra[1] - rb[0])
                    if isinstance(e.op, ast.Mult) and ra[0] >= 0 and rb[0] >= 0:
                        return (ra[0] * rb[0], ra[1] * rb[1])
                    if isinstance(e.op, ast.LShift) and ra[0] >= 0 and 0 <= rb[0] and rb[1] <= 64:
                        return (ra[0] << rb[0], ra[1] << rb[1])
                    if isinstance(e.op, ast.LShift) and 0 <= rb[0] and rb[1] <= 64:
                        return (min(ra[0] << rb[1], ra[0] << rb[0]), max(ra[1] << rb[1], ra[1] << rb[0]))
                    if isinstance(e.op, ast.BitOr) and ra[0] >= 0 and rb[0] >= 0:
                        return (0, (1 << max(ra[1].bit_length(), rb[1].bit_length())) - 1)
        if isinstance(e, ast.Call) and call_name(e) == "int.from_bytes" and e.args and isinstance(e.args[0], ast.Subscript) and isinstance(e.args[0].slice, ast.Slice):
            sl = e.args[0].slice
            lo = self.repo.fold(sl.lower, self.mod, self.ctx) if sl.lower is not None else 0
            hi = self.repo.fold(sl.upper, self.mod, self.ctx) if sl.upper is not None else None
            if isinstance(lo, int) and isinstance(hi, int) and 0 <= lo <= hi and not any(k.arg == "signed" for k in e.keywords):
                return (0, 256 ** (hi - lo) - 1)
        if isinstance(e, ast.Attribute) and e.attr == "value":
            for ci in self.classes_of_type(self.typ(e.value)):
                if self.repo.is_enum(ci):
                    vals = [v for v in self.repo.enum_members(ci).values()]
                    if vals and all(isinstance(v, int) and not isinstance(v, bool) for v in vals):
                        return (min(vals), max(vals))
        if isinstance(e, ast.Subscript) and not isinstance(e.slice, ast.Slice):
            if self.from_validated_payload(e.value):
                pt = self.repo.class_attr_expr(self.ctx, "payload_type") if self.ctx is not None else None
                pl = self.repo.const(self.ctx, "payload_length") if self.ctx is not None else None
                if pt is not None and ast.unparse(pt[0]) == "DPTBinary" and isinstance(pl, int):
                    return (0, 2 ** pl - 1)
                return (0, 255)
            bt = self.typ(e.value)
            if kinds(bt) and kinds(bt) <= {"bytes", "bytearray"}:
                return (0, 255)
        if isinstance(e, ast.Name):
            # single assignment local
            defs = [n for n in walk_local(self.fi.node) if (isinstance(n, ast.Assign) and len(n.targets) == 1 and isinstance(n.targets[0], ast.Name) and n.targets[0].id == e.id) or (isinstance(n, ast.NamedExpr) and n.target.id == e.id)]
            others = [n for n in walk_local(self.fi.node) if isinstance(n, (ast.AugAssign, ast.For, ast.AnnAssign)) and any(isinstance(x, ast.Name) and x.id == e.id and isinstance(x.ctx, ast.Store) for x in ast.walk(n))]
            ov = getattr(self, "_range_override", {})
            if e.id in ov:
                return ov[e.id]
            if len(defs) >= 2 and not others and e.id not in self.params and all(isinstance(d, ast.Assign) for d in defs):
                # several plain assignments (eg. a value and its sign-corrected version): the union of their ranges; a
                # definition in terms of the name itself is evaluated over the union of the others
                def mentions(d) -> bool:
                    return any(isinstance(x, ast.Name) and x.id == e.id for x in ast.walk(d.value))
                base = [self.int_range(d.value, ()) for d in defs if not mentions(d)]
                if base and all(b is not None for b in base):
                    r0 = (min(b[0] for b in base), max(b[1] for b in base))
                    rs = [r0]
                    ok_all = True
                    for d in defs:
                        if mentions(d):
                            self._range_override = {**ov, e.id: r0}
                            try:
                                rd = self.int_range(d.value, ())
                            finally:
                                self._range_override = ov
                            if rd is None:
                                ok_all = False
                                break
                            rs.append(rd)
                    if ok_all:
                        return (min(r[0] for r in rs), max(r[1] for r in rs))
            if len(defs) == 1 and not others and e.id not in self.params:
                r = self.int_range(defs[0].value, ())
                if r is not None:
                    # truthiness / comparison facts at the use refine the lower end
                    for atom, val in self.facts(e, local):
                        if val and (atom == e.id or atom == f"({ast.unparse(defs[0])})" or (isinstance(defs[0], ast.NamedExpr) and atom == ast.unparse(defs[0]))) and r[0] == 0:
                            r = (1, r[1])
                return r
            if kinds(self.typ(e)) == {"bool"}:
                return (0, 1)
        if isinstance(e, ast.Call) and call_name(e) == "bool":
            return (0, 1)
        if isinstance(e, ast.Call) and call_name(e) == "len" and len(e.args) == 1 and not e.keywords:
            return (0, 2 ** 63 - 1)
        if isinstance(e, ast.Name) and e.id not in self.params:
            # accumulator: every binding is `x = <ranged>` or `x |= <ranged>` / `x += <ranged>` outside loops, operands >= 0
            binds = [n for n in walk_local(self.fi.node) if (isinstance(n, (ast.Assign, ast.AugAssign, ast.AnnAssign, ast.For, ast.NamedExpr, ast.With, ast.AsyncWith)) or isinstance(n, ast.comprehension)) and any(isinstance(x, ast.Name) and x.id == e.id and isinstance(x.ctx, ast.Store) for x in ast.walk(n.target if isinstance(n, (ast.AugAssign, ast.AnnAssign, ast.For, ast.NamedExpr, ast.comprehension)) else n) if not isinstance(n, (ast.With, ast.AsyncWith)) or True)]
            in_loop = any(isinstance(l, (ast.For, ast.AsyncFor, ast.While)) and any(b is x for b in binds for x in ast.walk(l)) for l in walk_local(self.fi.node))
            if binds and not in_loop and all((isinstance(b, ast.Assign) and len(b.targets) == 1 and isinstance(b.targets[0], ast.Name)) or (isinstance(b, ast.AugAssign) and isinstance(b.target, ast.Name) and isinstance(b.op, (ast.BitOr, ast.Add))) for b in binds) and not getattr(self, "_acc_guard", False):
                self._acc_guard = True
                try:
                    rs = [self.int_range(b.value, ()) for b in binds]
                finally:
                    self._acc_guard = False
                if all(r is not None and r[0] >= 0 for r in rs):
                    if all(isinstance(b, ast.Assign) or isinstance(b.op, ast.BitOr) for b in binds):
                        return (0, (1 << max(r[1].bit_length() for r in rs)) - 1)
                    return (0, sum(r[1] for r in rs))
        t = self.typ(e) if isinstance(e, (ast.Attribute, ast.Name, ast.Call, ast.Subscript)) else None
        if t is not None:
            if kinds(t) == {"bool"}:
                return (0, 1)
            cis = self.classes_of_type(t)
            if cis and all(self.repo.is_enum(ci) and any(b.split(".")[-1] in ("IntEnum", "IntFlag") for c2 in self.repo.mro(ci) for b in [ast.unparse(x) for x in c2.node.bases]) for ci in cis):
                vals = [v for ci in cis for v in self.repo.enum_members(ci).values()]
                if vals and all(isinstance(v, int) and not isinstance(v, bool) for v in vals):
                    return (min(vals), max(vals))
        return None

    def finite(self, e: ast.AST, local: tuple = (), depth: int = 6) -> bool:
        """a number that cannot be nan / inf: not derived from a caller's float"""
        if depth <= 0:
            return False
        if self.int_range(e, local) is not None:
            return True
        v = self.repo.fold(e, self.mod, self.ctx)
        if isinstance(v, (int, float)) and not isinstance(v, bool):
            return v == v and v not in (float("inf"), float("-inf"))
        if isinstance(e, ast.BinOp):
            if isinstance(e.op, (ast.Add, ast.Sub, ast.Mult)):
                return self.finite(e.left, local, depth - 1) and self.finite(e.right, local, depth - 1)
            if isinstance(e.op, (ast.Div, ast.FloorDiv)):
                d = self.repo.fold(e.right, self.mod, self.ctx)
                return isinstance(d, (int, float)) and not isinstance(d, bool) and d != 0 and d == d and self.finite(e.left, local, depth - 1)
            return False
        if isinstance(e, ast.UnaryOp) and isinstance(e.op, (ast.USub, ast.UAdd)):
            return self.finite(e.operand, local, depth - 1)
        if isinstance(e, ast.Call) and call_name(e).split(".")[-1] in ("time", "monotonic", "perf_counter") and not e.args:
            return True  # clock readings
        if isinstance(e, ast.Attribute) and isinstance(e.value, ast.Name) and e.value.id in ("self", "cls"):
            k = kinds(self.typ(e))
            return bool(k) and k <= {"int", "float", "bool"}  # the object's own numeric state (not the caller's value)
        if isinstance(e, ast.Name) and e.id not in self.params:
            defs = [n for n in walk_local(self.fi.node) if isinstance(n, ast.Assign) and len(n.targets) == 1 and isinstance(n.targets[0], ast.Name) and n.targets[0].id == e.id]
            stores = [n for n in walk_local(self.fi.node) if isinstance(n, ast.Name) and n.id == e.id and isinstance(n.ctx, ast.Store)]
            if len(defs) == 1 and len(stores) == 1:
                return self.finite(defs[0].value, (), depth - 1)
        return False

    def builtin_call(self, name: str, c: ast.Call, local: tuple) -> set[Esc]:
        if name == "str" and (len(c.args) >= 2 or any(k.arg in ("encoding", "errors") for k in c.keywords)):
            return self.decode_site(c, c.args[1:], local)  # str(bytes, encoding[, errors]) decodes
        if self.taint and name not in _ANY_OK_BUILTINS:
            ua = [a for a in c.args if self.untyped(a, local)]
            if ua:
                excs = ("TypeError", "ValueError", "OverflowError") if name in ("int", "float", "round", "bytes", "bytearray", "chr") else ("TypeError",)
                return self.site([(x, f"{name}() of a caller value of unchecked type (`{ast.unparse(ua[0])}`)") for x in excs], c, None)
        if name in NO_RAISE_BUILTINS:
            return set()
        if name == "int":
            if not c.args:
                return set()
            at = self.typ(c.args[0])
            ka = kinds(at)
            if ka and (ka <= {"int", "bool"} or all(k.startswith("xknx.") for k in ka)):
                return set()
            if ka and ka <= {"float", "int", "bool"}:
                return self.site([("ValueError", "int(nan)"), ("OverflowError", "int(inf)")], c, None)
            if ka and ka <= {"str", "Any"} and "str" in ka:
                arg = ast.unparse(c.args[0])
                ok = None
                fs = self.facts(c, local)
                if any(val and atom == f"{arg}.isdecimal()" for atom, val in fs):
                    # CPython refuses int(str) beyond sys.int_max_str_digits (default 4300) with ValueError
                    bound = None
                    for atom, val in fs:
                        for op, want, off in (("<=", True, 0), ("<", True, -1), (">", False, 0), (">=", False, -1)):
                            pre = f"len({arg}) {op} "
                            if atom.startswith(pre) and val is want:
                                try:
                                    k = self.repo.fold(ast.parse(atom[len(pre):], mode="eval").body, self.mod, self.ctx)
                                except SyntaxError:
                                    k = None
                                if isinstance(k, int):
                                    bound = k + off if bound is None else min(bound, k + off)
                    if bound is not None and bound <= 4300:
                        ok = f"dominated by str.isdecimal() and len <= {bound} (within int()'s digit limit)"
                if ok is None:
                    ok = self.regex_digits(c.args[0])
                return self.site([("ValueError", "int(str) for a non-decimal string or one beyond int()'s 4300-digit limit")], c, ok)
            if ka and not (ka & {"float", "Any", "object"}) and "str" in ka:
                return self.site([("ValueError", f"int({at})")], c, None)
            # unknown / untyped operand (eg. a branch the declared type excludes): whatever __int__ / float conversion raises
            return self.site([("ValueError", f"int({at or '?'})"), ("OverflowError", f"int({at or '?'}): infinite float"), ("TypeError", f"int({at or '?'}): no integer conversion")], c, None)
        if name == "round":
            # round(x) with one argument converts to int: ValueError for nan, OverflowError for an infinity; with an
            # ndigits argument (or an int operand) the result keeps the type and nothing is raised
            if len(c.args) != 1 or c.keywords:
                return set()
            at = self.typ(c.args[0])
            if kinds(at) and kinds(at) <= {"int", "bool"}:
                return set()
            ok = None
            arg = ast.unparse(c.args[0])
            for atom, val in self.facts(c, local):
                if val and atom in (f"math.isfinite({arg})", f"isfinite({arg})"):
                    ok = "dominated by math.isfinite"
            if ok is None and self.finite(c.args[0], local):
                ok = "finite by construction (bounded integers, constants, clock readings and the object's own state under + - * and division by a non-zero constant)"
            return self.site([("ValueError", "round(nan)"), ("OverflowError", "round(inf)")], c, ok)
        if name == "float":
            at = self.typ(c.args[0]) if c.args else ""
            if kinds(at) and kinds(at) <= {"bool"}:
                return set()
            if kinds(at) and kinds(at) <= {"float", "bool"} and not (isinstance(c.args[0], ast.Name) and c.args[0].id in self.params):
                return set()  # a computed float; a *parameter* annotated float also takes an int (numeric tower)
            if kinds(at) and kinds(at) <= {"int", "float", "bool"}:
                # float(int) overflows beyond the float range (10**400): OverflowError, not ValueError
                rr = self.int_range(c.args[0], local) if c.args else None
                ok = f"integer operand within [{rr[0]}, {rr[1]}]" if rr is not None and abs(rr[0]) < 10 ** 300 and abs(rr[1]) < 10 ** 300 else None
                return self.site([("OverflowError", "float(int) beyond the float range")], c, ok)
            return self.site([("ValueError", f"float({at or '?'})"), ("OverflowError", "float(int) beyond the float range")], c, None)
        if name in ("bytes", "bytearray"):
            if not c.args:
                return set()
            at = self.typ(c.args[0])
            if kinds(at) and kinds(at) <= {"bytes", "bytearray", "memoryview"}:
                return set()
            if kinds(at) and kinds(at) <= {"int"}:
                v = self.repo.fold(c.args[0], self.mod, self.ctx)
                if isinstance(v, int) and v >= 0:
                    return set()
                rr = self.int_range(c.args[0], local)
                return self.site([("ValueError", "bytes(negative int)")], c, f"count in [{rr[0]}, {rr[1]}] is non-negative" if rr is not None and rr[0] >= 0 else None)
            # iterable of ints: every element must be an octet
            a0 = c.args[0]
            gen_ok = isinstance(a0, (ast.GeneratorExp, ast.ListComp)) and len(a0.generators) == 1 and isinstance(a0.generators[0].target, ast.Name) and isinstance(a0.elt, ast.Name) and a0.elt.id == a0.generators[0].target.id and self.from_validated_payload(a0.generators[0].iter)
            if gen_ok or self.from_validated_payload(a0) or (isinstance(a0, ast.Subscript) and isinstance(a0.slice, ast.Slice) and self.from_validated_payload(a0.value)):
                return self.site([("ValueError", "bytes(iterable)")], c, "octets of a validated payload (input assumption: DPTArray elements are octets)")
            elts = a0.elts if isinstance(a0, (ast.List, ast.Tuple)) else None
            if elts is not None:
                rngs = [self.int_range(x, local) for x in elts]
                if all(r is not None and 0 <= r[0] and r[1] <= 255 for r in rngs):
                    return self.site([("ValueError", "bytes(iterable)")], c, "every element proven in 0..255")
            return self.site([("ValueError", "bytes(iterable) with an element outside 0..255")], c, None)
        if name in EXTERNAL:
            return self.external_call(name, name, "", c, local)
        self.mr.external_unknown[name] = self.mr.external_unknown.get(name, 0) + 1
        return set()

    def decode_site(self, c: ast.Call, args: list, local: tuple) -> set[Esc]:
        """bytes.decode(enc[, errors]) / str(b, enc[, errors]): strict decoding of arbitrary octets raises unless the
        codec is total (latin-1) or a non-strict error handler is given."""
        kw = {k.arg: k.value for k in c.keywords}
        enc_e = args[0] if args else kw.get("encoding")
        err_e = args[1] if len(args) >= 2 else kw.get("errors")
        enc = self.repo.fold(enc_e, self.mod, self.ctx) if enc_e is not None else "utf-8"
        err = self.repo.fold(err_e, self.mod, self.ctx) if err_e is not None else "strict"
        ok = None
        if isinstance(enc, str) and enc.lower().replace("-", "_") in ("latin_1", "latin1", "iso_8859_1", "iso8859_1", "l1"):
            ok = "latin-1 decodes every octet"
        elif isinstance(err, str) and err in ("replace", "ignore", "backslashreplace", "surrogateescape", "namereplace", "xmlcharrefreplace"):
            ok = f"errors={err!r} never raises"
        return self.site([("UnicodeDecodeError", f"strict decoding with codec {enc!r}")], c, ok)

    def regex_digits(self, arg: ast.AST) -> str | None:
        """int(m.group(k)) / int(m[k]) where group k of the dominating successful regex match consists of digits only."""
        g = None
        if isinstance(arg, ast.Call) and isinstance(arg.func, ast.Attribute) and arg.func.attr == "group" and len(arg.args) == 1:
            g = (arg.func.value, arg.args[0])
        elif isinstance(arg, ast.Subscript):
            g = (arg.value, arg.slice)
        if g is None:
            return None
        mvar, key = g
        if not isinstance(mvar, ast.Name):
            return None
        k = self.repo.fold(key, self.mod, self.ctx)
        defs = [n for n in walk_local(self.fi.node) if (isinstance(n, ast.Assign) and len(n.targets) == 1 and isinstance(n.targets[0], ast.Name) and n.targets[0].id == mvar.id) or (isinstance(n, ast.NamedExpr) and n.target.id == mvar.id)]
        if len(defs) != 1:
            return None
        v = defs[0].value
        if not (isinstance(v, ast.Call) and isinstance(v.func, ast.Attribute) and v.func.attr in ("match", "fullmatch", "search")):
            return None
        pat_expr = v.func.value
        pat = None
        tgt = self.repo.resolve_expr(self.mod, pat_expr) if not (isinstance(pat_expr, ast.Attribute) and isinstance(pat_expr.value, ast.Name) and pat_expr.value.id in ("self", "cls")) else None
        cand = None
        if isinstance(tgt, tuple) and tgt[0] in ("const", "classattr"):
            cand = tgt[1]
        elif isinstance(pat_expr, ast.Attribute) and self.ctx is not None:
            hit = self.repo.class_attr_expr(self.ctx, pat_expr.attr)
            cand = hit[0] if hit else None
        def _is_re_compile(c_: ast.Call) -> bool:
            n_ = call_name(c_)
            if n_ in ("re.compile",):
                return True
            imp = (hit[1].module if (isinstance(pat_expr, ast.Attribute) and self.ctx is not None and (hit := self.repo.class_attr_expr(self.ctx, pat_expr.attr))) else self.mod).imports.get(n_)
            return imp == ("re", "compile")
        if isinstance(cand, ast.Call) and _is_re_compile(cand) and cand.args:
            pat = self.repo.fold(cand.args[0], self.mod, self.ctx)
            if pat is NOFOLD and isinstance(cand.args[0], ast.JoinedStr):
                pat = None
        if not isinstance(pat, str):
            return None
        try:
            import re._parser as rp  # type: ignore[import-not-found]
            tree = rp.parse(pat)
        except Exception:  # noqa: BLE001
            return None
        groups = {}
        def visit(items):
            for op, av in items:
                if str(op) == "SUBPATTERN":
                    gid, _, _, sub = av
                    groups[gid] = sub
                    visit(sub)
                elif str(op) in ("BRANCH",):
                    for alt in av[1]:
                        visit(alt)
                elif str(op) in ("MAX_REPEAT", "MIN_REPEAT"):
                    visit(av[2])
        visit(tree)
        name_to_id = tree.state.groupdict
        gid = name_to_id.get(k) if isinstance(k, str) else k
        sub = groups.get(gid)
        if sub is None:
            return None
        def digits_only(items) -> bool:
            for op, av in items:
                s = str(op)
                if s == "IN":
                    if not all(str(o) == "CATEGORY" and str(a) == "CATEGORY_DIGIT" or (str(o) == "RANGE" and 48 <= a[0] and a[1] <= 57) or (str(o) == "LITERAL" and 48 <= a <= 57) for o, a in av):
                        return False
                elif s == "LITERAL":
                    if not 48 <= av <= 57:
                        return False
                elif s == "BRANCH":
                    if not all(digits_only(alt) for alt in av[1]):
                        return False
                elif s in ("MAX_REPEAT", "MIN_REPEAT"):
                    # bounded digit count: int(str) raises ValueError beyond 4300 digits
                    if not (isinstance(av[1], int) and int(av[1]) <= 1000) or not digits_only(av[2]) or any(str(o2) in ("MAX_REPEAT", "MIN_REPEAT") for o2, _ in av[2]):
                        return False
                else:
                    return False
            return True
        if not digits_only(sub):
            return None
        # the match must have succeeded on the path to the int() call
        for atom, val in self.facts(arg):
            if (atom == mvar.id and val) or (atom in (f"{mvar.id} is None", f"not {mvar.id}") and not val) or (atom == f"{mvar.id} is not None" and val) or (atom.startswith(f"({mvar.id} :=") and " is None" in atom and not val) or (atom.startswith(f"({mvar.id} :=") and " is None" not in atom and val):
                # \d (with or without re.ASCII) matches decimal digits of Unicode category Nd only, all of which int() accepts
                return f"group {k!r} of the dominating successful match of {pat!r} is digits only"
        return None

    _ANY_OK_METHODS = {"debug", "info", "warning", "error", "exception", "critical", "log", "append", "add", "put_nowait", "set_result", "format", "insert", "setdefault"}

    def external_call(self, name: str, attr: str, recv_type: str, c: ast.Call, local: tuple) -> set[Esc]:
        if self.taint and attr not in self._ANY_OK_METHODS and name != "struct.pack":
            ua = [a for a in c.args if self.untyped(a, local)]
            if ua:
                return self._external_call(name, attr, recv_type, c, local) | self.site([("TypeError", f"{name}() with a caller value of unchecked type (`{ast.unparse(ua[0])}`)")], c, None)
        return self._external_call(name, attr, recv_type, c, local)

    def _external_call(self, name: str, attr: str, recv_type: str, c: ast.Call, local: tuple) -> set[Esc]:
        if name in EXTERNAL:
            excs = EXTERNAL[name]
            if not excs:
                return set()
            ok = None
            extra: set[Esc] = set()
            if name == "struct.pack" and c.args:
                fmt = self.repo.fold(c.args[0], self.mod, self.ctx)
                if not isinstance(fmt, str) or any(ch in fmt for ch in "fe"):
                    # 'f' / 'e' refuse finite floats beyond their range with OverflowError (not struct.error)
                    extra = self.site([("OverflowError", "struct.pack: float too large for the 'f'/'e' format")], c, None)
            if name == "struct.unpack":
                ok = self.struct_ok(c, local)
            if name == "next" and len(c.args) >= 2:
                ok = "default given"
            if name in ("socket.inet_ntoa",) and c.args:
                a = c.args[0]
                if isinstance(a, ast.Subscript) and isinstance(a.slice, ast.Slice):
                    lo = self.repo.fold(a.slice.lower, self.mod, self.ctx) if a.slice.lower is not None else 0
                    hi = self.repo.fold(a.slice.upper, self.mod, self.ctx) if a.slice.upper is not None else None
                    if isinstance(lo, int) and isinstance(hi, int) and hi - lo == 4 and self.len_lower_bound(ast.unparse(a.value), c, local) >= hi:
                        ok = "4 octets proven by the length guard"
            return self.site([(x, f"{name}()") for x in excs], c, ok) | extra
        if attr == "decode":
            return self.decode_site(c, c.args, local)
        if attr == "encode" and kinds(recv_type) == {"str"}:
            enc = self.repo.fold(c.args[0], self.mod, self.ctx) if c.args else "utf-8"
            kw = {k.arg for k in c.keywords}
            if "errors" in kw or len(c.args) >= 2 or (isinstance(enc, str) and enc.lower().replace("-", "_") in ("utf_8", "utf8")):
                return set()
            return self.site([("UnicodeEncodeError", f"str.encode({enc!r})")], c, None)
        if attr in ("split", "rsplit", "partition", "hex", "strip", "lower", "upper", "startswith", "endswith", "join", "format", "get", "items", "keys", "values", "append", "extend", "add", "discard", "update", "setdefault", "copy", "count", "isdigit", "isdecimal", "replace", "ljust", "rjust", "zfill", "title", "bit_length", "group", "groups", "is_set", "set", "clear", "done", "cancel", "cancelled", "debug", "info", "warning", "error", "exception", "log", "total_seconds", "isoformat", "astimezone", "timestamp", "is_integer", "as_integer_ratio", "fromkeys", "insert", "sort", "reverse", "wait", "sleep", "create_task", "create_future", "call_later", "call_soon", "add_done_callback", "time", "match", "fullmatch", "search", "qsize", "empty", "put", "join", "cast", "find", "rfind", "rstrip", "lstrip", "isalnum", "isalpha", "isinstance", "gather", "shield", "timeout", "current_task", "get_event_loop", "name", "value", "_replace", "most_common", "difference", "union", "intersection", "issubset", "acquire", "release", "locked"):
            return set()
        if attr == "pop":
            if kinds(recv_type) and kinds(recv_type) <= MAP_KINDS and len(c.args) < 2:
                return self.site([("KeyError", "dict.pop without default")], c, None)
            if kinds(recv_type) == {"list"}:
                return self.site([("IndexError", "list.pop on a possibly empty list")], c, None)
            return set()
        if attr in EXT_METHODS:
            excs = EXT_METHODS[attr]
            ok = None
            if attr in ("set_result", "set_exception"):
                recv = ast.unparse(c.func.value)  # type: ignore[attr-defined]
                for atom, val in self.facts(c, local):
                    if atom == f"{recv}.done()" and not val:
                        ok = f"dominated by `not {recv}.done()`"
            if attr == "remove":
                recv = ast.unparse(c.func.value)  # type: ignore[attr-defined]
                x = ast.unparse(c.args[0]) if c.args else "?"
                for atom, val in self.facts(c, local):
                    if (atom == f"{x} in {recv}" and val) or (atom == f"{x} not in {recv}" and not val):
                        ok = f"dominated by `{x} in {recv}`"
            if attr == "to_bytes":
                ok = self.to_bytes_ok(c, local)
            return self.site([(x, f".{attr}()") for x in excs], c, ok)
        self.mr.external_unknown[f".{attr} on {recv_type or '?'}"] = self.mr.external_unknown.get(f".{attr} on {recv_type or '?'}", 0) + 1
        return set()

    def to_bytes_ok(self, c: ast.Call, local: tuple) -> str | None:
        n = self.repo.fold(c.args[0], self.mod, self.ctx) if c.args else None
        if not isinstance(n, int):
            return None
        recv = c.func.value  # type: ignore[attr-defined]
        r = self.int_range(recv, local)
        if r is not None and 0 <= r[0] and r[1] < 256 ** n:
            return f"receiver in [{r[0]}, {r[1]}] fits {n} octet(s)"
        if isinstance(recv, ast.Call) and call_name(recv) == "len" and n >= 2:
            return None
        return None

    def struct_ok(self, c: ast.Call, local: tuple) -> str | None:
        if len(c.args) != 2:
            return None
        fmt = self.repo.fold(c.args[0], self.mod, self.ctx)
        if not isinstance(fmt, str):
            return None
        try:
            size = struct.calcsize(fmt)
        except struct.error:
            return None
        a = c.args[1]
        if isinstance(a, ast.Call) and call_name(a) in ("bytes", "bytearray") and a.args and self.from_validated_payload(a.args[0]) and self.ctx is not None:
            pl = self.repo.const(self.ctx, "payload_length")
            if pl == size:
                return f"validated payload of payload_length {pl} == calcsize({fmt!r})"
        if isinstance(a, ast.Subscript) and isinstance(a.slice, ast.Slice) and a.slice.step is None:
            lo = self.repo.fold(a.slice.lower, self.mod, self.ctx) if a.slice.lower is not None else 0
            hi = self.repo.fold(a.slice.upper, self.mod, self.ctx) if a.slice.upper is not None else None
            if isinstance(lo, int) and isinstance(hi, int) and lo >= 0 and hi - lo == size and self.len_lower_bound(ast.unparse(a.value), c, local) >= hi:
                return f"slice [{lo}:{hi}] of a value with proven length >= {hi} matches calcsize({fmt!r}) = {size}"
            return None
        text = ast.unparse(a)
        for atom, val in self.facts(c, local):
            if _len_eq_fact(atom, val, text) == size:
                return f"len({text}) == {size} proven by a dominating guard"
        return None


def _count_top(s: str) -> int:
    depth = 0
    n = 1 if s.strip() else 0
    for ch in s:
        if ch in "[(":
            depth += 1
        elif ch in "])":
            depth -= 1
        elif ch == "," and depth == 0:
            n += 1
    return n


def _atoms(e: ast.AST, truth: bool) -> list[tuple[str, bool]]:
    """Atomic facts implied by `e` evaluating to `truth` (conjunctions when true / disjunctions when false)."""
    if isinstance(e, ast.UnaryOp) and isinstance(e.op, ast.Not):
        return _atoms(e.operand, not truth)
    if isinstance(e, ast.BoolOp):
        if (isinstance(e.op, ast.And) and truth) or (isinstance(e.op, ast.Or) and not truth):
            out = []
            for v in e.values:
                out += _atoms(v, truth)
            return out
        return []
    return [(ast.unparse(e), truth)]


_LEN_RE = re.compile(r"^len\((.+)\) (<|<=|>|>=|==|!=) (\d+)$")
_LEN_RE2 = re.compile(r"^(\d+) (<|<=|>|>=|==|!=) len\((.+)\)$")


def _len_fact(atom: str, val: bool, text: str) -> int:
    """Lower bound on len(text) implied by the fact (atom == val)."""
    m = _LEN_RE.match(atom)
    if m and m.group(1) == text:
        op, n = m.group(2), int(m.group(3))
    else:
        m2 = _LEN_RE2.match(atom)
        if m2 and m2.group(3) == text:
            n = int(m2.group(1))
            op = {"<": ">", "<=": ">=", ">": "<", ">=": "<=", "==": "==", "!=": "!="}[m2.group(2)]
        else:
            if atom == text and val:
                return 1
            if atom == f"not {text}" and not val:
                return 1
            m3 = re.match(r"^len\((.+)\) (not in|in) \((.+)\)$", atom)
            if m3 and m3.group(1) == text:
                try:
                    nums = [int(x) for x in m3.group(3).split(",") if x.strip()]
                except ValueError:
                    return 0
                if (m3.group(2) == "in" and val) or (m3.group(2) == "not in" and not val):
                    return min(nums) if nums else 0
            return 0
    if val:
        return {">": n + 1, ">=": n, "==": n}.get(op, 0)
    return {"<": n, "<=": n + 1, "!=": n}.get(op, 0)


def _len_eq_fact(atom: str, val: bool, text: str) -> int | None:
    m = _LEN_RE.match(atom)
    if m and m.group(1) == text:
        op, n = m.group(2), int(m.group(3))
        if (op == "==" and val) or (op == "!=" and not val):
            return n
    return None
