"""Bit-field abstract values (E2-lite): a machine word as a record of disjoint fields.

BitRec(fields) with fields = ((lo, width, value), ...) where value is an int (known bits) or a
SymBits(name, width, excluded) — an unknown `width`-bit quantity known to differ from `excluded`.
Supports the operations serialisers use: & mask, >> k, << k, | / + of disjoint records,
truthiness, equality with constants, and field-wise equality of two records.
"""

from __future__ import annotations

from dataclasses import dataclass
from typing import Any


@dataclass(frozen=True)
class SymBits:
    name: str
    width: int
    excluded: frozenset = frozenset()
    neg: bool = False  # only for width 1: the complemented bit

    def __repr__(self) -> str:
        ex = f" not in {sorted(self.excluded)}" if self.excluded else ""
        return f"<{'~' if self.neg else ''}{self.name}:{self.width}b{ex}>"

    def negated(self) -> "SymBits":
        if self.width != 1:
            raise ValueError("negation of a multi-bit symbolic field")
        return SymBits(self.name, 1, frozenset(), not self.neg)

    def eq_const(self, c: int) -> bool | None:
        if c in self.excluded or c < 0 or c >= (1 << self.width):
            return False
        return None

    def truth(self) -> bool | None:
        return True if 0 in self.excluded else None


@dataclass(frozen=True)
class BitRec:
    fields: tuple[tuple[int, int, Any], ...]  # (lo, width, value)

    def __repr__(self) -> str:
        return "bits{" + ", ".join(f"[{lo + w - 1}:{lo}]={v!r}" for lo, w, v in sorted(self.fields, reverse=True)) + "}"


def norm(fields) -> Any:
    """Collapse: all-known -> int; single symbolic field at offset 0 -> the SymBits itself."""
    fs0 = []
    for lo, w, v in fields:
        if isinstance(v, bool):
            v = int(v)
        if isinstance(v, int):
            # canonical form of known bits: one 1-bit field per set bit
            for i in range(w):
                if (v >> i) & 1:
                    fs0.append((lo + i, 1, 1))
        else:
            fs0.append((lo, w, v))
    fs = tuple(sorted(fs0))
    if not fs:
        return 0
    if all(isinstance(v, int) for _, _, v in fs):
        out = 0
        for lo, w, v in fs:
            out |= v << lo
        return out
    if len(fs) == 1 and fs[0][0] == 0 and isinstance(fs[0][2], SymBits) and fs[0][2].width == fs[0][1]:
        return fs[0][2]
    return BitRec(fs)


def to_fields(v: Any) -> tuple | None:
    if isinstance(v, bool):
        v = int(v)
    if isinstance(v, int):
        if v < 0:
            return None
        out = []
        i = 0
        x = v
        while x:
            if x & 1:
                out.append((i, 1, 1))
            x >>= 1
            i += 1
        return tuple(out)
    if isinstance(v, SymBits):
        return ((0, v.width, v),)
    if isinstance(v, BitRec):
        return v.fields
    return None


def _const_slice(val: int, lo: int, w: int) -> int:
    return (val >> lo) & ((1 << w) - 1)


def band(a: Any, mask: int) -> Any:
    fa = to_fields(a)
    if fa is None or mask < 0:
        return None
    out = []
    for lo, w, v in fa:
        m = _const_slice(mask, lo, w)
        full = (1 << w) - 1
        if m == 0:
            continue
        if isinstance(v, int):
            out.append((lo, w, v & m))
        elif m == full:
            out.append((lo, w, v))
        else:
            return None  # partial mask over a symbolic field
    return norm(out)


def shr(a: Any, k: int) -> Any:
    fa = to_fields(a)
    if fa is None or k < 0:
        return None
    out = []
    for lo, w, v in fa:
        if lo >= k:
            out.append((lo - k, w, v))
        elif lo + w <= k:
            continue
        elif isinstance(v, int):
            out.append((0, w - (k - lo), v >> (k - lo)))
        else:
            return None
    return norm(out)


def shl(a: Any, k: int) -> Any:
    fa = to_fields(a)
    if fa is None or k < 0:
        return None
    return norm([(lo + k, w, v) for lo, w, v in fa])


def bor(a: Any, b: Any) -> Any:
    fa, fb = to_fields(a), to_fields(b)
    if fa is None or fb is None:
        return None
    occupied = {}
    out = []
    for lo, w, v in list(fa) + list(fb):
        for i in range(lo, lo + w):
            if i in occupied:
                # overlapping: only fine when both constant
                if isinstance(v, int) and isinstance(occupied[i], int):
                    continue
                return None
        for i in range(lo, lo + w):
            occupied[i] = v
        out.append((lo, w, v))
    # merge constant overlaps
    if all(isinstance(v, int) for _, _, v in out):
        x = 0
        for lo, w, v in out:
            x |= v << lo
        return x
    return norm(out)


def add(a: Any, b: Any) -> Any:
    """a + b when the operands occupy disjoint bits (no carries) — otherwise None."""
    fa, fb = to_fields(a), to_fields(b)
    if fa is None or fb is None:
        return None
    bits_a = {i for lo, w, _ in fa for i in range(lo, lo + w)}
    bits_b = {i for lo, w, _ in fb for i in range(lo, lo + w)}
    if bits_a & bits_b:
        return None
    return bor(a, b)


def truth(a: Any) -> bool | None:
    fa = to_fields(a)
    if fa is None:
        return None
    unknown = False
    for lo, w, v in fa:
        if isinstance(v, int):
            if v:
                return True
        else:
            t = v.truth()
            if t:
                return True
            unknown = True
    return None if unknown else False


def eq(a: Any, b: Any) -> bool | None:
    if isinstance(a, bool):
        a = int(a)
    if isinstance(b, bool):
        b = int(b)
    if isinstance(a, int) and isinstance(b, int):
        return a == b
    if isinstance(b, int) or isinstance(a, int):
        rec, c = (a, b) if isinstance(b, int) else (b, a)
        fs = to_fields(rec)
        if fs is None or c < 0:
            return None
        unknown = False
        covered = 0
        for lo, w, v in fs:
            covered |= ((1 << w) - 1) << lo
            cs = _const_slice(c, lo, w)
            if isinstance(v, int):
                if v != cs:
                    return False
            else:
                r = v.eq_const(cs)
                if r is False:
                    return False
                unknown = True
        if c & ~covered:
            return False
        return None if unknown else True
    fa, fb = to_fields(a), to_fields(b)
    if fa is None or fb is None:
        return None
    da = {(lo, w): v for lo, w, v in fa}
    db = {(lo, w): v for lo, w, v in fb}
    unknown = False
    for key in set(da) | set(db):
        va, vb = da.get(key), db.get(key)
        if va is None or vb is None:
            # field present on one side only: overlaps with differently shaped fields -> unknown unless constant zero
            other = fb if va is not None else fa
            lo, w = key
            overl = [(l2, w2, v2) for l2, w2, v2 in other if l2 < lo + w and lo < l2 + w2]
            v = va if va is not None else vb
            if not overl:
                if isinstance(v, int):
                    if v != 0:
                        return False
                else:
                    r = v.eq_const(0)
                    if r is False:
                        return False
                    unknown = True
            else:
                unknown = True
            continue
        if isinstance(va, int) and isinstance(vb, int):
            if va != vb:
                return False
        elif isinstance(va, SymBits) and isinstance(vb, SymBits):
            if va != vb:
                unknown = True
        else:
            s_, c_ = (va, vb) if isinstance(va, SymBits) else (vb, va)
            if s_.eq_const(c_) is False:
                return False
            unknown = True
    return None if unknown else True


def bounds(a: Any) -> tuple[int, int] | None:
    """[min, max] of the values a bit record can take (symbolic fields range over their full width)."""
    fa = to_fields(a)
    if fa is None:
        return None
    lo = hi = 0
    for l, w, v in fa:
        if isinstance(v, int):
            lo += v << l
            hi += v << l
        else:
            hi += ((1 << w) - 1) << l
    return lo, hi
